#!/bin/sh
# Offline setup: nothing to build. Verifies the toolchain and warms the persistent XLA cache
# (keyed on the XLA computation, never on /repo sources) with a short bounded exploration.
set -e
cd "$(dirname "$0")"
/venv/bin/python -c "import jax, numpy, scipy; print('jax', jax.__version__)"
mkdir -p .cache/jax .work evidence replays
VERIF_SEED=7 timeout 300 ./check selftest --n 32 || { echo "selftest failed"; exit 1; }
exit 0
