#!/bin/sh
# Offline setup: nothing to build. Verifies the toolchain, proves determinism on a sample and warms the
# persistent XLA cache (keyed on the XLA computation, never on /repo sources) with a bounded exploration,
# so that the first check after a fresh restore does not spend its budget compiling.
set -e
cd "$(dirname "$0")"
/venv/bin/python -c "import jax, numpy, scipy; print('jax', jax.__version__)"
mkdir -p .cache/jax .work evidence replays
rc=0
VERIF_SEED=7 timeout 900 ./check selftest --n 32 || rc=$?
if [ "$rc" = 124 ]; then
    echo "selftest: stopped after 900 s (slow machine); determinism is re-proved by 'check selftest'"
elif [ "$rc" != 0 ]; then
    echo "selftest failed"; exit 1
fi
timeout 900 ./check warm --time 180 || echo "warm-up incomplete (exit $?): checks still run, only slower"
exit 0
