"""Delta debugging of a failing op list (DESIGN 6.2)."""

from __future__ import annotations

import copy
import time

from sim import core


def minimise(job, budget_s=150, max_evals=400):
    prop = job["property"]
    cfg = job["cfg"]
    twin = job.get("twin")
    key = job["key"]
    t_end = time.time() + budget_s
    evals = [0]

    def fails(steps):
        if evals[0] >= max_evals or time.time() > t_end:
            return False
        evals[0] += 1
        try:
            viols = core.run_recipes_for_prop(prop, cfg, copy.deepcopy(steps), twin)
        except Exception:
            return False
        return any(core.key_eq(core.sig_key(v), key) for v in viols)

    steps = list(job["steps"])
    if not fails(steps):
        return {**job, "steps": steps, "minimised": False, "evals": evals[0], "note": "did not reproduce in shrinker"}
    # cut the tail after the failing step
    n = 2
    while len(steps) >= 2:
        chunk = max(1, len(steps) // n)
        reduced = False
        i = 0
        while i < len(steps):
            cand = steps[:i] + steps[i + chunk :]
            if cand and fails(cand):
                steps = cand
                n = max(n - 1, 2)
                reduced = True
            else:
                i += chunk
        if not reduced:
            if chunk == 1:
                break
            n = min(n * 2, len(steps))
        if time.time() > t_end or evals[0] >= max_evals:
            break
    # drop perturbation flags / simplify: remove steps one by one (final pass)
    i = len(steps) - 1
    while i >= 0 and time.time() < t_end and evals[0] < max_evals:
        cand = steps[:i] + steps[i + 1 :]
        if cand and fails(cand):
            steps = cand
        i -= 1
    # prune unused ops from the pool
    used = {r.get("op") for r in steps if r.get("op")}
    cfg2 = dict(cfg)
    cfg2["ops"] = {k: v for k, v in cfg.get("ops", {}).items() if k in used}
    out = {**job, "cfg": cfg2, "steps": steps, "minimised": True, "evals": evals[0]}
    viols = core.run_recipes_for_prop(prop, cfg2, copy.deepcopy(steps), twin)
    hit = [v for v in viols if core.key_eq(core.sig_key(v), key)]
    if hit:
        out["expect"] = {"key": key, "detail": hit[0]["detail"], "cell": hit[0]["cell"], "sid": hit[0]["sid"]}
    else:
        out["cfg"] = cfg
    return out
