"""
Relational (twin-run) checks: the same recorded schedule executed under different
configurations must agree (C08 contraction, C15 interleaving, C18 value coincidence,
C14 re-seeding).  None of them uses the reference model.
"""

from __future__ import annotations

import copy

import numpy as np

from sim import alpha, oracles, runner
from sim import refmodel as R
from sim.oracles import Violation

TOL_TWIN = 4e-6


def snapshot_diff(sa, sb, client=None, tol=TOL_TWIN):
    """Physical difference between two snapshots (optionally restricted to one client's
    blocks). Returns None if equal, else a short description."""
    ba = [b for b in sa.blocks if client is None or b.client == client]
    bb = [b for b in sb.blocks if client is None or b.client == client]
    la = sorted(m for b in ba for m in b.members)
    lb = sorted(m for b in bb for m in b.members)
    if la != lb:
        return f"live subsystems differ: {sorted(set(la) ^ set(lb))}"
    for mem, xa, xb in alpha.components(ba, bb):
        if sorted(b.key() for b in xa) == sorted(b.key() for b in xb):
            continue
        D = max(int(np.prod([b.D for b in xa])) if xa else 1, int(np.prod([b.D for b in xb])) if xb else 1)
        if D > oracles.MAX_DIM:
            continue
        ra, na, da = alpha.joint(xa)
        rb, nb, db = alpha.joint(xb)
        if ra is None or rb is None:
            return f"malformed block in component {mem}"
        nd = [max(x, y) for x, y in zip(da, db)]
        ra, _ = R.pad_rho(ra, da, nd)
        rb, _ = R.pad_rho(rb, db, nd)
        d = R.maxdiff(ra, rb)
        if d > tol:
            return f"component {mem}: |rho_A - rho_B| = {d:.3g}"
    return None


def _nondeg_draws(res):
    out = []
    for d in res.draws:
        if d["p"] is None:
            continue
        p = np.real(np.asarray(d["p"], dtype=np.complex128))
        if not np.all(np.isfinite(p)) or p.sum() <= 0:
            out.append(None)
            continue
        pn = p / p.sum()
        if pn.max() > 1 - 1e-9:
            continue
        out.append(pn)
    return out


def _all_draws(res):
    out = []
    for d in res.draws:
        if d["p"] is None:
            continue
        p = np.real(np.asarray(d["p"], dtype=np.complex128))
        if not np.all(np.isfinite(p)) or p.sum() <= 0:
            out.append(None)
        else:
            out.append(p / p.sum())
    return out


def _near_point_mass(p):
    # a draw that a legitimate contraction (weights below the library's 1e-6 purity cut) or a
    # label-level short cut may add or remove
    return p is not None and p.max() > 1 - 3e-5


def _same(x, y, tol=1e-5):
    if x is None or y is None:
        return x is None and y is None
    if len(x) != len(y):
        n = max(len(x), len(y))  # cut-offs may differ between twins: pad with zeros
        x = np.pad(x, (0, n - len(x)))
        y = np.pad(y, (0, n - len(y)))
    return float(np.max(np.abs(x - y))) <= tol


def _compare_draw_lists(pa, pb):
    """Sequence alignment of the probability vectors seen at the sampler; near point masses may be
    present in one twin only."""
    i = j = 0
    while i < len(pa) or j < len(pb):
        a = pa[i] if i < len(pa) else None
        b = pb[j] if j < len(pb) else None
        if i < len(pa) and j < len(pb) and _same(a, b):
            i += 1
            j += 1
        elif i < len(pa) and _near_point_mass(a):
            i += 1
        elif j < len(pb) and _near_point_mass(b):
            j += 1
        else:
            return f"{None if a is None else np.round(a, 8).tolist()} vs {None if b is None else np.round(b, 8).tolist()} (draw {i}/{j})"
    return None


def _status(res):
    return res.status if res.status != "raised" else "raised"


def compare_traces(ra, rb, props, oracle, world_a, client=None, compare_draws=True, tol=TOL_TWIN, align=None):
    """ra, rb: RunResults with snapshots over the *same sids* (align: list of sids to compare).
    Returns (violation or None, step index of divergence)."""
    ia = {r["sid"]: k for k, r in enumerate(ra.recipes)}
    ib = {r["sid"]: k for k, r in enumerate(rb.recipes)}
    sids = align if align is not None else [r["sid"] for r in ra.recipes if r["sid"] in ib]
    tol0 = tol
    for sid in sids:
        # every channel with a mixing weight below the library's purity cut may legitimately be
        # contracted away in one twin only: the tolerance grows with the number of such steps
        rr_ = ra.recipes[ia[sid]] if sid in ia else None
        if rr_ is not None and rr_["do"] == "kraus":
            ws = [rr_["ch"].get("p")] + [q.get("p") for q in rr_["ch"].get("parts", [])]
            if any(w is not None and w < 1e-5 for w in ws):
                tol = tol + 2e-6
        if rr_ is not None and rr_["do"] == "op":
            # weak couplings leave amplitudes below the library's label / purity tolerances, which one
            # twin may round away
            sp = (ra.world.op_specs or {}).get(rr_.get("op"), {})
            if any(isinstance(v, float) and 0 < abs(v) < 3e-5 for v in sp.values()):
                tol = tol + 2e-6
        if sid not in ia or sid not in ib:
            continue
        ka, kb = ia[sid], ib[sid]
        pre_a, post_a, res_a = ra.snapshots[ka]
        pre_b, post_b, res_b = rb.snapshots[kb]
        r = ra.recipes[ka]
        cell = oracles.make_cell(world_a, pre_a, r, res_a.addressed)
        cell["pre_class"] = "-"
        if r["do"] == "op" and res_a.status == "ok" and res_b.status == "ok":
            # operators whose truncated form depends on the cut-off (estimator driven, or expressions that
            # move photons) are different operators when the twins' cut-offs differ: stop comparing
            spec = (res_a.info or {}).get("spec") or {}
            sensitive = spec.get("t") in ("F.Displace", "F.Squeeze") or spec.get("form") in ("rot", "bs")
            if sensitive:
                da = [post_a.sub[n]["dims"] for n in r.get("on", []) if n in post_a.sub]
                db = [post_b.sub[n]["dims"] for n in r.get("on", []) if n in post_b.sub]
                if da != db:
                    return None, None
        if r["do"] in ("kraus", "povm", "fault"):
            # channel / operator-set specs are resolved at the targets' *current* dimensions; if the
            # cutoffs differ between the twins the two requests are different channels: stop comparing
            da = [pre_a.sub[n]["dims"] for n in r.get("on", []) if n in pre_a.sub]
            db = [pre_b.sub[n]["dims"] for n in r.get("on", []) if n in pre_b.sub]
            if da != db:
                return None, None
        if "skipped" in (res_a.status, res_b.status) and res_a.status != res_b.status:
            # applicability of a request may depend on the representation level (expand / contract
            # steps); the physical comparison below still applies
            d = snapshot_diff(post_a, post_b, client=client, tol=tol)
            if d is not None:
                return Violation(props, oracle, "twin-state", cell, f"sid {sid}: {d}"), sid
            continue
        if _status(res_a) != _status(res_b):
            return (
                Violation(props, oracle, "twin-status", cell, f"sid {sid}: {res_a.status}/{res_a.exc} vs {res_b.status}/{res_b.exc}"),
                sid,
            )
        if res_a.status == "skipped":
            continue
        if res_a.status == "ok":
            da, db = runner.ret_digest(ra.world, res_a.ret), runner.ret_digest(rb.world, res_b.ret)
            if r["do"] in ("measure", "povm") and da != db:
                return Violation(props, oracle, "twin-outcomes", cell, f"sid {sid}: {da} vs {db}"), sid
        if compare_draws:
            bad = _compare_draw_lists(_all_draws(res_a), _all_draws(res_b))
            if bad is not None:
                return Violation(props, oracle, "twin-probabilities", cell, f"sid {sid}: {bad}"), sid
        d = snapshot_diff(post_a, post_b, client=client, tol=tol)
        if d is not None:
            return Violation(props, oracle, "twin-state", cell, f"sid {sid}: {d}"), sid
    return None, None


# ------------------------------------------------------------------------------------------
def strip_contraction(recipes):
    out = []
    for r in recipes:
        if r["do"] == "config" and "contraction" in r:
            r2 = {k: v for k, v in r.items() if k != "contraction"}
            r2.setdefault("seed", 1)
            out.append(r2)
        else:
            out.append(r)
    return out


def c08_twins(cfg, recipes):
    """Run the schedule with contraction on / off / as recorded (toggled)."""
    base = strip_contraction(recipes)
    runs = {}
    follow = None
    for name, (contr, rec) in {"on": (True, base), "off": (False, base), "toggled": (cfg.get("contraction", True), recipes)}.items():
        c = dict(cfg)
        c["contraction"] = contr
        if follow is not None:
            c["follow"] = {sid: [dict(x) for x in lst] for sid, lst in follow.items()}
        runs[name] = runner.execute_run(c, recipes=copy.deepcopy(rec), keep_snapshots=True, stop_on_taint=True)
        if follow is None:
            # the first twin leads: the others take its outcome at the matching draw
            follow = {}
            for (pre, post, res), r in zip(runs[name].snapshots, runs[name].recipes):
                lst = []
                for d in res.draws:
                    pp = None
                    if d["p"] is not None:
                        q = np.real(np.asarray(d["p"], dtype=np.complex128))
                        if np.all(np.isfinite(q)) and q.sum() > 0:
                            pp = q / q.sum()
                    lst.append({"n": d["n"], "p": pp, "idx": d["idx"]})
                follow[r["sid"]] = lst
    return runs


def c15_twins(cfg, recipes, client=0):
    """Client `client` alone vs interleaved with everybody else."""
    solo = [r for r in recipes if r.get("client", 0) == client]
    a = runner.execute_run(dict(cfg), recipes=copy.deepcopy(recipes), keep_snapshots=True)
    b = runner.execute_run(dict(cfg), recipes=copy.deepcopy(solo), keep_snapshots=True)
    return a, b, [r["sid"] for r in solo]


def distinct_values(recipes):
    """Metamorphic twin for C18: initial Fock labels made pairwise distinct."""
    out = []
    k = 0
    for r in recipes:
        if r["do"] == "mk_env":
            r = dict(r)
            r["fock"] = k
            k += 1
            if r.get("dims"):
                r["dims"] = r["fock"] + 2
        out.append(r)
    return out


def footprint(world, pre, post, res):
    fp = {"st": res.status if res.status != "raised" else "raised"}
    if res.status == "ok":
        ret = res.ret
        if isinstance(ret, dict):
            fp["keys"] = sorted(str(world.name_of(k)) for k in ret)
        elif isinstance(ret, tuple) and len(ret) == 2 and isinstance(ret[1], dict):
            fp["keys"] = sorted(str(world.name_of(k)) for k in ret[1])
    fp["dead"] = sorted(n for n, m in post.sub.items() if m["measured"])
    fp["parts"] = sorted(tuple(sorted(b.members)) for b in post.blocks)
    return fp


def c18_twins(cfg, recipes):
    a = runner.execute_run(dict(cfg), recipes=copy.deepcopy(recipes), keep_snapshots=True)
    b = runner.execute_run(dict(cfg), recipes=copy.deepcopy(distinct_values(recipes)), keep_snapshots=True)
    return a, b


def compare_footprints(a, b):
    ib = {r["sid"]: k for k, r in enumerate(b.recipes)}
    for ka, r in enumerate(a.recipes):
        sid = r["sid"]
        if sid not in ib:
            break
        pre_a, post_a, res_a = a.snapshots[ka]
        pre_b, post_b, res_b = b.snapshots[ib[sid]]
        if res_a.status == "skipped" or res_b.status == "skipped":
            if res_a.status != res_b.status:
                return None, None  # applicability depends on values: stop comparing, not a violation
            continue
        fa, fb = footprint(a.world, pre_a, post_a, res_a), footprint(b.world, pre_b, post_b, res_b)
        if fa != fb:
            cell = oracles.make_cell(a.world, pre_a, r, res_a.addressed)
            diff = {k: (fa.get(k), fb.get(k)) for k in set(fa) | set(fb) if fa.get(k) != fb.get(k)}
            return Violation(["C18"], "value-twin", "footprint-differs", cell, f"sid {sid}: {str(diff)[:300]}"), sid
    return None, None
