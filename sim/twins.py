"""
Relational (twin-run) checks: the same recorded schedule executed under different
configurations must agree (C08 contraction, C15 interleaving, C18 value coincidence,
C14 re-seeding).  None of them uses the reference model.
"""

from __future__ import annotations

import copy

import numpy as np

from sim import alpha, oracles, runner
from sim import refmodel as R
from sim.oracles import Violation

TOL_TWIN = 4e-6
# steps that change representation or bookkeeping only
NEUTRAL = ("sub.expand", "sub.contract", "env.expand", "env.contract", "env.combine", "env.reorder", "ce.combine", "ce.reorder", "ce.expand", "ps.contract", "mk_ce", "mk_env", "mk_custom", "mk_op", "mut_op", "config", "trace_out")


def snapshot_diff(sa, sb, client=None, tol=TOL_TWIN):
    """Physical difference between two snapshots (optionally restricted to one client's
    blocks). Returns None if equal, else a short description."""
    ba = [b for b in sa.blocks if client is None or b.client == client]
    bb = [b for b in sb.blocks if client is None or b.client == client]
    la = sorted(m for b in ba for m in b.members)
    lb = sorted(m for b in bb for m in b.members)
    if la != lb:
        return f"live subsystems differ: {sorted(set(la) ^ set(lb))}"
    for mem, xa, xb in alpha.components(ba, bb):
        if sorted(b.key() for b in xa) == sorted(b.key() for b in xb):
            continue
        D = max(int(np.prod([b.D for b in xa])) if xa else 1, int(np.prod([b.D for b in xb])) if xb else 1)
        if D > oracles.MAX_DIM:
            continue
        ra, na, da = alpha.joint(xa)
        rb, nb, db = alpha.joint(xb)
        if ra is None or rb is None:
            return f"malformed block in component {mem}"
        nd = [max(x, y) for x, y in zip(da, db)]
        ra, _ = R.pad_rho(ra, da, nd)
        rb, _ = R.pad_rho(rb, db, nd)
        d = R.maxdiff(ra, rb)
        if d > tol:
            return f"component {mem}: |rho_A - rho_B| = {d:.3g}"
    return None


def _nondeg_draws(res):
    out = []
    for d in res.draws:
        if d["p"] is None:
            continue
        p = np.real(np.asarray(d["p"], dtype=np.complex128))
        if not np.all(np.isfinite(p)) or p.sum() <= 0:
            out.append(None)
            continue
        pn = p / p.sum()
        if pn.max() > 1 - 1e-9:
            continue
        out.append(pn)
    return out


def _all_draws(res):
    out = []
    for d in res.draws:
        if d["p"] is None:
            continue
        p = np.real(np.asarray(d["p"], dtype=np.complex128))
        if not np.all(np.isfinite(p)) or p.sum() <= 0:
            out.append(None)
        else:
            out.append(p / p.sum())
    return out


def _near_point_mass(p):
    # a draw that a legitimate contraction (weights below the library's 1e-6 purity cut) or a
    # label-level short cut may add or remove
    return p is not None and p.max() > 1 - 3e-5


def _same(x, y, tol=1e-5):
    if x is None or y is None:
        return x is None and y is None
    if len(x) != len(y):
        n = max(len(x), len(y))  # cut-offs may differ between twins: pad with zeros
        x = np.pad(x, (0, n - len(x)))
        y = np.pad(y, (0, n - len(y)))
    return float(np.max(np.abs(x - y))) <= tol


def _compare_draw_lists(pa, pb, idx_a=None, amp=1.0):
    """Sequence alignment of the probability vectors seen at the sampler; near point masses may be
    present in one twin only. `idx_a`: the outcomes taken in twin A, `amp`: the amplification inherited
    from earlier post-selections - every outcome taken divides what a contraction rounded away in one
    twin (1e-6) by its probability, for the later draws of the same call too."""
    i = j = 0
    while i < len(pa) or j < len(pb):
        a = pa[i] if i < len(pa) else None
        b = pb[j] if j < len(pb) else None
        tolp = 1e-5 + 2e-6 * amp
        if tolp > 0.05:
            return None  # nothing meaningful left to compare
        if i < len(pa) and j < len(pb) and _same(a, b, tol=tolp):
            if idx_a is not None and a is not None and i < len(idx_a) and 0 <= idx_a[i] < len(a):
                amp = amp / max(float(a[idx_a[i]]), 1e-12)
            i += 1
            j += 1
        elif i < len(pa) and _near_point_mass(a):
            i += 1
        elif j < len(pb) and _near_point_mass(b):
            j += 1
        else:
            return f"{None if a is None else np.round(a, 8).tolist()} vs {None if b is None else np.round(b, 8).tolist()} (draw {i}/{j})"
    return None


def _status(res):
    return res.status if res.status != "raised" else "raised"


def compare_traces(ra, rb, props, oracle, world_a, client=None, compare_draws=True, tol=TOL_TWIN, align=None, same_layout=False):
    """ra, rb: RunResults with snapshots over the *same sids* (align: list of sids to compare).
    Returns (violation or None, step index of divergence)."""
    ia = {r["sid"]: k for k, r in enumerate(ra.recipes)}
    ib = {r["sid"]: k for k, r in enumerate(rb.recipes)}
    sids = align if align is not None else [r["sid"] for r in ra.recipes if r["sid"] in ib]
    tol0 = tol
    for sid in sids:
        # every channel with a mixing weight below the library's purity cut may legitimately be
        # contracted away in one twin only: the tolerance grows with the number of such steps
        rr_ = ra.recipes[ia[sid]] if sid in ia else None
        if rr_ is not None and rr_["do"] == "kraus":
            ws = [rr_["ch"].get("p")] + [q.get("p") for q in rr_["ch"].get("parts", [])]
            if any(w is not None and w < 1e-5 for w in ws):
                tol = tol + 2e-6
        if rr_ is not None and rr_["do"] == "op":
            # weak couplings leave amplitudes below the library's label / purity tolerances, which one
            # twin may round away
            sp = (ra.world.op_specs or {}).get(rr_.get("op"), {})
            if any(isinstance(v, float) and 0 < abs(v) < 3e-5 for v in sp.values()):
                tol = tol + 2e-6
        if rr_ is not None and rr_["do"].endswith(".contract") and float(rr_.get("tol") or 0.0) > 1e-6:
            tol = max(tol, 2.0 * float(rr_["tol"]))  # the caller's own contraction tolerance
        if sid not in ia or sid not in ib:
            continue
        ka, kb = ia[sid], ib[sid]
        pre_a, post_a, res_a = ra.snapshots[ka]
        pre_b, post_b, res_b = rb.snapshots[kb]
        r = ra.recipes[ka]
        cell = oracles.make_cell(world_a, pre_a, r, res_a.addressed)
        cell["pre_class"] = "-"
        if r["do"] == "op" and res_a.status == "ok" and res_b.status == "ok":
            # operators whose truncated form depends on the cut-off (estimator driven, or expressions that
            # move photons) are different operators when the twins' cut-offs differ: stop comparing
            spec = (res_a.info or {}).get("spec") or {}
            sensitive = spec.get("t") in ("F.Displace", "F.Squeeze") or spec.get("form") in ("rot", "bs")
            if sensitive:
                da = [post_a.sub[n]["dims"] for n in r.get("on", []) if n in post_a.sub]
                db = [post_b.sub[n]["dims"] for n in r.get("on", []) if n in post_b.sub]
                if da != db:
                    if same_layout:
                        # twins that differ only in which Operation OBJECT is used, or in what happened
                        # to unrelated objects, hand the library the same input in the same
                        # representation: the cut-off it chooses must be the same
                        return Violation(props, oracle, "twin-cutoff", cell, f"sid {sid}: cut-offs {da} vs {db} for the same operation on the same input"), sid
                    return None, None
        if r["do"] in ("kraus", "povm", "fault"):
            # channel / operator-set specs are resolved at the targets' *current* dimensions; if the
            # cutoffs differ between the twins the two requests are different channels: stop comparing
            da = [pre_a.sub[n]["dims"] for n in r.get("on", []) if n in pre_a.sub]
            db = [pre_b.sub[n]["dims"] for n in r.get("on", []) if n in pre_b.sub]
            if da != db:
                return None, None
        if "skipped" in (res_a.status, res_b.status) and res_a.status != res_b.status:
            # applicability of a request may depend on the representation level (expand / contract
            # steps); the physical comparison below still applies to steps that are physically neutral,
            # any other step that ran in one twin only ends the comparison
            if r["do"] not in NEUTRAL:
                return None, None
            d = snapshot_diff(post_a, post_b, client=client, tol=tol)
            if d is not None:
                return Violation(props, oracle, "twin-state", cell, f"sid {sid}: {d}"), sid
            continue
        if _status(res_a) != _status(res_b):
            return (
                Violation(props, oracle, "twin-status", cell, f"sid {sid}: {res_a.status}/{res_a.exc} vs {res_b.status}/{res_b.exc}"),
                sid,
            )
        if res_a.status == "skipped":
            continue
        if res_a.status == "ok":
            da, db = runner.ret_digest(ra.world, res_a.ret), runner.ret_digest(rb.world, res_b.ret)
            if r["do"] in ("measure", "povm") and da != db:
                if compare_draws and _compare_draw_lists(_all_draws(res_a), _all_draws(res_b), [d["idx"] for d in res_a.draws if d["p"] is not None], tol / tol0) is None:
                    # the sampler saw the same distributions in both twins and only the forced choices
                    # differ (the follower could not tell two equal distributions apart, or drew them in
                    # another order): two legitimate branches of one program, nothing left to compare
                    return None, None
                return Violation(props, oracle, "twin-outcomes", cell, f"sid {sid}: {da} vs {db}"), sid
        if compare_draws:
            ia_ = [d["idx"] for d in res_a.draws if d["p"] is not None]
            bad = _compare_draw_lists(_all_draws(res_a), _all_draws(res_b), ia_, tol / tol0)
            if bad is not None:
                return Violation(props, oracle, "twin-probabilities", cell, f"sid {sid}: {bad}"), sid
        if r["do"] in ("measure", "povm") and res_a.status == "ok":
            # post-selection divides by the probability of the outcome: whatever one twin's contraction
            # rounded away (up to 1e-6) is amplified by that factor in the conditional state, for good
            pj = 1.0
            for d in res_a.draws:
                if d["p"] is not None and len(d["p"]) > 1:
                    q = np.real(np.asarray(d["p"], dtype=np.complex128))
                    if np.all(np.isfinite(q)) and q.sum() > 0 and 0 <= d["idx"] < len(q):
                        pj *= max(float(q[d["idx"]] / q.sum()), 1e-12)
            if pj < 1.0:
                tol = tol / pj
            if tol > 1e-3:
                return None, None  # nothing meaningful left to compare
        d = snapshot_diff(post_a, post_b, client=client, tol=tol)
        if d is not None:
            return Violation(props, oracle, "twin-state", cell, f"sid {sid}: {d}"), sid
    return None, None


# ------------------------------------------------------------------------------------------
def strip_contraction(recipes):
    out = []
    for r in recipes:
        if r["do"] == "config" and "contraction" in r:
            r2 = {k: v for k, v in r.items() if k != "contraction"}
            r2.setdefault("seed", 1)
            out.append(r2)
        else:
            out.append(r)
    return out


def c08_twins(cfg, recipes):
    """Run the schedule with contraction on / off / as recorded (toggled)."""
    base = strip_contraction(recipes)
    runs = {}
    follow = None
    for name, (contr, rec) in {"on": (True, base), "off": (False, base), "toggled": (cfg.get("contraction", True), recipes)}.items():
        c = dict(cfg)
        c["contraction"] = contr
        # contraction twins differ by what a contraction rounds away (1e-6); post-selecting a branch of
        # probability p divides that by p, so the leader keeps to branches of at least 1e-3
        c["min_branch"] = 1e-3
        if follow is not None:
            c["follow"] = {sid: [dict(x) for x in lst] for sid, lst in follow.items()}
        runs[name] = runner.execute_run(c, recipes=copy.deepcopy(rec), keep_snapshots=True, stop_on_taint=True)
        if follow is None:
            # the first twin leads: the others take its outcome at the matching draw
            follow = {}
            for (pre, post, res), r in zip(runs[name].snapshots, runs[name].recipes):
                lst = []
                for d in res.draws:
                    pp = None
                    if d["p"] is not None:
                        q = np.real(np.asarray(d["p"], dtype=np.complex128))
                        if np.all(np.isfinite(q)) and q.sum() > 0:
                            pp = q / q.sum()
                    lst.append({"n": d["n"], "p": pp, "idx": d["idx"]})
                follow[r["sid"]] = lst
    return runs


def c15_twins(cfg, recipes, client=0):
    """Client `client` alone vs interleaved with everybody else."""
    solo = [r for r in recipes if r.get("client", 0) == client]
    a = runner.execute_run(dict(cfg), recipes=copy.deepcopy(recipes), keep_snapshots=True)
    b = runner.execute_run(dict(cfg), recipes=copy.deepcopy(solo), keep_snapshots=True)
    return a, b, [r["sid"] for r in solo]


_ANGLE_KEYS = ("theta", "phi", "omega", "eta", "re", "im")


def poison_prefix(ops):
    """Operations on objects nobody else uses, built from the program's own operation pool so that
    whatever a description could wrongly share with another one (a cache keyed too coarsely, state kept
    on the operation type) is there to be shared: the same type with other parameter values, the same
    values under other parameter names or another type, the same values written in another keyword
    order. Returns (extra op pool, recipes of client 9)."""
    extra, rec = {}, []
    sid = [2 * 10**6]

    def emit(r):
        sid[0] += 1
        r["sid"] = sid[0]
        r["client"] = 9
        rec.append(r)

    emit({"do": "mk_env", "name": "e95", "fock": 1, "pol": "R"})
    emit({"do": "mk_env", "name": "e96", "fock": 0, "pol": "H"})
    emit({"do": "mk_ce", "name": "ce95", "of": ["e95", "e96"]})
    customs = {}
    n = 0
    for name in sorted(ops):
        sp = ops[name]
        t = sp.get("t", "")
        keys = [k for k in _ANGLE_KEYS if isinstance(sp.get(k), (int, float))]
        variants = []
        if keys:
            v = dict(sp)
            for k in keys:
                v[k] = round(float(sp[k]) + 0.37, 6)
            variants.append(v)
        if t == "P.U3":
            for kw, perm in ((["theta", "phi", "omega"], ("theta", "phi", "omega")), (["omega", "theta", "phi"], ("omega", "theta", "phi"))):
                base = sp.get("kw", ["phi", "theta", "omega"])
                v = dict(sp)
                # the values in the order the program wrote them, under other names
                for k_new, k_old in zip(kw, base):
                    v[k_new] = sp[k_old]
                v["kw"] = kw
                variants.append(v)
        if t in ("P.RX", "P.RY", "P.RZ"):
            for g in ("P.RX", "P.RY", "P.RZ"):
                if g != t:
                    variants.append({**sp, "t": g})
        if t in ("F.Displace", "F.Squeeze"):
            # small amplitudes only, and (below) every one on a vacuum mode of its own: repeated
            # squeezing of one mode drives its cut-off, and the step time, out of every budget
            variants.append({**sp, "re": -sp.get("re", 0.0), "im": -sp.get("im", 0.0)})
            variants = [v for v in variants if abs(complex(v.get("re", 0), v.get("im", 0))) < 0.75][:2]
        kinds = sp.get("kinds") or [t[0]]
        for v in variants:
            if v == sp or len(kinds) > 2:
                continue
            n += 1
            nm = f"pz{n}"
            extra[nm] = v
            on = []
            ok = True
            for i, k in enumerate(kinds):
                if k == "P":
                    on.append(("e95.p", "e96.p")[i % 2] if kinds.count("P") > 1 else "e95.p")
                elif k == "F":
                    on.append(("e95.f", "e96.f")[i % 2] if kinds.count("F") > 1 else "e96.f")
                elif k == "C":
                    d = v.get("d", 3)
                    if d not in customs:
                        customs[d] = f"s9{len(customs)}"
                        emit({"do": "mk_custom", "name": customs[d], "d": d, "label": 0})
                        emit({"do": "mk_ce", "name": f"ce9{len(customs)}", "of": [customs[d], "ce95"]})
                    on.append(customs[d])
                else:
                    ok = False
            if not ok or len(set(on)) != len(on):
                continue
            if v.get("t") in ("F.Displace", "F.Squeeze") or (v.get("t") == "F.Expr" and v.get("form") == "rot"):
                fresh = f"e8{n}"
                emit({"do": "mk_env", "name": fresh, "fock": 0, "pol": "H"})
                on = [fresh + ".f"]
            if len(on) == 1:
                emit({"do": "op", "entry": "state", "op": nm, "on": on})
            else:
                emit({"do": "op", "entry": "ce", "ce": "ce95", "op": nm, "on": on})
    return extra, rec


def shifted_pool(ops, delta):
    """The operation pool with every rotation / phase / mixing angle moved by `delta` (values nobody
    has used before in this process); Displace / Squeeze amplitudes stay (they drive the cut-offs)."""
    out = {}
    for name, sp in ops.items():
        v = dict(sp)
        for k in ("theta", "phi", "omega", "eta"):
            if isinstance(v.get(k), (int, float)):
                v[k] = round(float(v[k]) + delta, 9)
        out[name] = v
    return out


def history_twin(cfg, recipes, client=0):
    """State that outlives a run (a module-level operator cache, say) cannot be seen by comparing two
    executions in one process - the first one primes it for the second. So: the program with its angles
    moved to fresh values, alone (must be clean under the per-step oracles), and the program moved to
    other fresh values behind a prefix of look-alikes built from those values (must be clean too)."""
    solo = [r for r in recipes if r.get("client", 0) == client]
    seed = int(cfg.get("seed", 0))
    d1 = 0.0137 + (seed % 9973) * 1e-6
    d2 = -0.0211 - (seed % 9967) * 1e-6
    c1 = dict(cfg)
    c1["ops"] = shifted_pool(cfg.get("ops", {}), d2)
    first = runner.execute_run(c1, recipes=copy.deepcopy(solo), stop_on_taint=False)
    pool = shifted_pool(cfg.get("ops", {}), d1)
    extra, prefix = poison_prefix(pool)
    c2 = dict(cfg)
    c2["ops"] = {**pool, **extra}
    second = runner.execute_run(c2, recipes=copy.deepcopy(prefix + solo), stop_on_taint=False)
    return first, second


def reused_estimator_ops(recipes, ops):
    """Names of Displace / Squeeze / rot operations applied more than once (under any name they go by)."""
    n = {}
    for r in recipes:
        if r["do"] == "op":
            sp = ops.get(r.get("op"), {})
            if sp.get("t") in ("F.Displace", "F.Squeeze") or sp.get("form") == "rot":
                n[r["op"]] = n.get(r["op"], 0) + 1
    return [k for k, v in n.items() if v > 1]


def fresh_object_twin(cfg, recipes):
    """The recorded program as it is, and with a new Operation object for every application."""
    a = runner.execute_run(dict(cfg), recipes=copy.deepcopy(recipes), keep_snapshots=True)
    f = runner.execute_run(dict(cfg, fresh_ops=True), recipes=copy.deepcopy(recipes), keep_snapshots=True)
    return a, f


def c15_more_twins(cfg, recipes, client=0):
    """Two more executions of client `client`'s program: behind a poisoning prefix of look-alike
    operations on unrelated objects, and with a new Operation object for every application."""
    solo = [r for r in recipes if r.get("client", 0) == client]
    extra, prefix = poison_prefix(cfg.get("ops", {}))
    c = dict(cfg)
    c["ops"] = {**cfg.get("ops", {}), **extra}
    p = runner.execute_run(c, recipes=copy.deepcopy(prefix + solo), keep_snapshots=True, stop_on_taint=False)
    f = runner.execute_run(dict(cfg, fresh_ops=True), recipes=copy.deepcopy(solo), keep_snapshots=True)
    return p, f


def distinct_values(recipes):
    """Metamorphic twin for C18: initial Fock labels made pairwise distinct."""
    out = []
    k = 0
    for r in recipes:
        if r["do"] == "mk_env":
            r = dict(r)
            r["fock"] = k
            k += 1
            if r.get("dims"):
                r["dims"] = r["fock"] + 2
        out.append(r)
    return out


def footprint(world, pre, post, res):
    fp = {"st": res.status if res.status != "raised" else "raised"}
    if res.status == "ok":
        ret = res.ret
        if isinstance(ret, dict):
            fp["keys"] = sorted(str(world.name_of(k)) for k in ret)
        elif isinstance(ret, tuple) and len(ret) == 2 and isinstance(ret[1], dict):
            fp["keys"] = sorted(str(world.name_of(k)) for k in ret[1])
    fp["dead"] = sorted(n for n, m in post.sub.items() if m["measured"])
    fp["parts"] = sorted(tuple(sorted(b.members)) for b in post.blocks)
    return fp


def c18_twins(cfg, recipes):
    a = runner.execute_run(dict(cfg), recipes=copy.deepcopy(recipes), keep_snapshots=True)
    if sum(1 for r in recipes if r["do"] == "mk_env") > 5:
        # pairwise distinct labels for that many photons mean Fock numbers (and cut-offs) beyond what a
        # step budget allows: no twin for this run
        return a, None
    b = runner.execute_run(dict(cfg), recipes=copy.deepcopy(distinct_values(recipes)), keep_snapshots=True)
    if b.harness_error:
        return a, None
    return a, b


def compare_footprints(a, b):
    if b is None:
        return None, None
    ib = {r["sid"]: k for k, r in enumerate(b.recipes)}
    for ka, r in enumerate(a.recipes):
        sid = r["sid"]
        if sid not in ib:
            break
        pre_a, post_a, res_a = a.snapshots[ka]
        pre_b, post_b, res_b = b.snapshots[ib[sid]]
        if res_a.status == "skipped" or res_b.status == "skipped":
            if res_a.status != res_b.status:
                return None, None  # applicability depends on values: stop comparing, not a violation
            continue
        fa, fb = footprint(a.world, pre_a, post_a, res_a), footprint(b.world, pre_b, post_b, res_b)
        if fa != fb:
            cell = oracles.make_cell(a.world, pre_a, r, res_a.addressed)
            diff = {k: (fa.get(k), fb.get(k)) for k in set(fa) | set(fb) if fa.get(k) != fb.get(k)}
            return Violation(["C18"], "value-twin", "footprint-differs", cell, f"sid {sid}: {str(diff)[:300]}"), sid
    return None, None
