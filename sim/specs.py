"""
Specs: JSON-able descriptions of operations, channels and measurement-operator sets, and
their resolution into (a) what is handed to the library and (b) the reference operator.

Everything is a pure function of the spec (and of the target dimensions): a replay file that
stores specs reproduces the very same matrices.
"""

from __future__ import annotations

import math

import numpy as np

from sim import refmodel as R


# ------------------------------------------------------------------------------------------
# operations
# ------------------------------------------------------------------------------------------
def operand_kinds(spec):
    t = spec["t"]
    fam = t.split(".")[0]
    if fam == "F":
        return ["F"]
    if fam == "P":
        return ["P"]
    if fam == "C":
        return ["C"]
    if t in ("X.CX", "X.CZ", "X.SWAP"):
        return ["P", "P"]
    if t == "X.CSWAP":
        return ["P", "P", "P"]
    if t == "X.BS":
        return ["F", "F"]
    if t == "X.Expr":
        return list(spec["kinds"])
    raise ValueError(t)


RENORMALIZING_FOCK = {"F.Creation", "F.Annihilation", "F.Squeeze"}


def renormalizes(spec):
    t = spec["t"]
    if t.startswith("F."):
        return t in RENORMALIZING_FOCK
    return True


def is_unitary_spec(spec):
    t = spec["t"]
    if t in ("F.Creation", "F.Annihilation"):
        return False
    if spec.get("u") == "contr" or spec.get("form") == "tree":
        return False
    return True


def _herm(d, seed):
    rng = np.random.default_rng(seed)
    a = rng.standard_normal((d, d)) + 1j * rng.standard_normal((d, d))
    return ((a + a.conj().T) / 2).astype(R.C)


def expr_tree(d, seed):
    """A seeded random expression over d x d matrices in the interpreter's own language.
    Returns (tree, leaves): leaves maps names to matrices; names starting with 'L' are literals that go
    into the tree itself, the others are looked up in the context. Every command of the interpreter
    appears, products have two to four non-commuting factors."""
    rs = np.random.RandomState(int(seed) % (2**31))
    leaves = {}

    def leaf():
        k = len(leaves)
        name = ("L" if rs.rand() < 0.35 else "M") + str(k)
        kind = rs.randint(3)
        if kind == 0:
            m = R.haar_unitary(d, int(seed) * 7 + k)
        elif kind == 1:
            m = _herm(d, int(seed) * 11 + k)
        else:
            m = R.random_contraction(d, int(seed) * 13 + k) + 0.5 * np.eye(d)
        leaves[name] = np.asarray(m, dtype=R.C)
        return name

    def scalar():
        c = rs.randint(4)
        if c == 0:
            return round(float(rs.uniform(0.3, 1.8)), 4)
        if c == 1:
            return int(rs.choice([2, 3, -1]))
        if c == 2:
            return complex(round(float(rs.uniform(-1, 1)), 3), round(float(rs.uniform(0.2, 1)), 3))
        return round(float(-rs.uniform(0.3, 1.5)), 4)

    def node(depth):
        if depth == 0:
            return leaf()
        op = rs.choice(["m_mult", "m_mult", "m_mult", "add", "sub", "s_mult", "div", "expm"])
        if op == "m_mult":
            return ("m_mult",) + tuple(node(depth - 1) for _ in range(rs.choice([2, 3, 3, 4])))
        if op == "add":
            return ("add",) + tuple(node(depth - 1) for _ in range(rs.choice([2, 3])))
        if op == "sub":
            return ("sub", node(depth - 1), node(depth - 1))
        if op == "s_mult":
            args = [scalar() for _ in range(rs.choice([1, 2]))]
            args.insert(rs.randint(len(args) + 1), node(depth - 1))
            return ("s_mult",) + tuple(args)
        if op == "div":
            return ("div", node(depth - 1), scalar())
        k = len(leaves)
        leaves["M" + str(k)] = np.asarray(_herm(d, int(seed) * 17 + k), dtype=R.C)
        return ("expm", ("s_mult", 1j, round(float(rs.uniform(-2, 2)), 4), "M" + str(k)))

    return node(int(rs.choice([1, 2, 2, 3]))), leaves


def eval_tree(tree, leaves):
    from scipy.linalg import expm

    if isinstance(tree, tuple):
        op, *args = tree
        v = [eval_tree(a, leaves) for a in args]
        if op == "add":
            out = v[0]
            for x in v[1:]:
                out = out + x
            return out
        if op == "sub":
            return v[0] - v[1]
        if op == "s_mult":
            out = v[0]
            for x in v[1:]:
                out = out * x
            return out
        if op == "m_mult":
            out = v[0]
            for x in v[1:]:
                out = out @ x
            return out
        if op == "div":
            return v[0] / v[1]
        if op == "expm":
            return expm(v[0])
        raise ValueError(op)
    if isinstance(tree, str):
        return leaves[tree]
    return tree


def custom_matrix(spec, d):
    u = spec.get("u", "haar")
    seed = int(spec.get("seed", 0))
    if u == "haar":
        return R.haar_unitary(d, seed)
    if u == "contr":
        return R.random_contraction(d, seed)
    if u == "perm":  # a permutation of the basis states (integer valued)
        perm = np.random.RandomState(seed).permutation(d)
        m = np.zeros((d, d), dtype=R.C)
        m[perm, np.arange(d)] = 1
        return m
    if u == "shift":  # cyclic shift |n> -> |n+1 mod d>
        m = np.zeros((d, d), dtype=R.C)
        for n in range(d):
            m[(n + 1) % d, n] = 1
        return m
    raise ValueError(u)


def ref_operator(spec, dims):
    """Reference operator of `spec` acting on targets of dimensions `dims` (call order)."""
    t = spec["t"]
    if t == "F.Creation":
        return R.create(dims[0])
    if t == "F.Annihilation":
        return R.destroy(dims[0])
    if t == "F.PhaseShift":
        return R.phase(dims[0], spec["phi"])
    if t == "F.Displace":
        return R.displace(dims[0], complex(spec["re"], spec["im"]))
    if t == "F.Squeeze":
        return R.squeeze(dims[0], complex(spec["re"], spec["im"]))
    if t == "F.Identity":
        return np.eye(dims[0], dtype=R.C)
    if t == "F.Custom":
        return custom_matrix(spec, spec["d"])
    if t == "F.Expr":
        d = dims[0]
        f = spec["form"]
        if f == "phase":  # expm(i theta n)
            return R.phase(d, spec["theta"])
        if f == "kerr":  # expm(i theta n^2)
            return np.diag(np.exp(1j * spec["theta"] * np.arange(d) ** 2)).astype(R.C)
        if f == "rot":  # expm(theta (a^dag - a))  == real displacement
            return R.displace(d, spec["theta"])
        raise ValueError(f)
    if t.startswith("P."):
        g = t[2:]
        if g in R.PAULI:
            return R.PAULI[g]
        if g == "RX":
            return R.rx(spec["theta"])
        if g == "RY":
            return R.ry(spec["theta"])
        if g == "RZ":
            return R.rz(spec["theta"])
        if g == "U3":
            return R.u3(spec["phi"], spec["theta"], spec["omega"])
        if g == "Custom":
            return custom_matrix(spec, 2)
        raise ValueError(t)
    if t == "C.Custom":
        return custom_matrix(spec, spec["d"])
    if t == "C.Expr":
        d = spec["d"]
        f = spec["form"]
        if f == "expm_herm":  # expm(i theta A), A seeded Hermitian, given through the context
            from scipy.linalg import expm

            return expm(1j * spec["theta"] * _herm(d, spec["seed"]))
        if f == "np_leaf":  # same operator, but A handed over as a numpy literal in the tree
            from scipy.linalg import expm

            return expm(1j * spec["theta"] * _herm(d, spec["seed"]))
        if f == "mmult":  # U1 @ U2
            return R.haar_unitary(d, spec["seed"]) @ R.haar_unitary(d, spec["seed"] + 1)
        if f == "tree":
            tree, leaves = expr_tree(d, spec["seed"])
            return np.asarray(eval_tree(tree, leaves), dtype=R.C)
        raise ValueError(f)
    if t == "X.CX":
        return R.CX
    if t == "X.CZ":
        return R.CZ
    if t == "X.SWAP":
        return R.SWAP
    if t == "X.CSWAP":
        return R.CSWAP
    if t == "X.BS":
        return R.beamsplitter_expm(dims[0], dims[1], spec["eta"])
    if t == "X.Expr":
        from scipy.linalg import expm

        f = spec["form"]
        if f == "bs":  # expm(i eta (a^dag b + a b^dag))
            return R.beamsplitter_expm(dims[0], dims[1], spec["theta"])
        if f == "crosskerr":  # expm(i theta n (x) n)   (F,F)
            return expm(1j * spec["theta"] * np.kron(R.number(dims[0]), R.number(dims[1])))
        if f == "fp_cphase":  # expm(i theta n (x) Z) @ (I (x) RY(theta))   (F,P) asymmetric
            return expm(1j * spec["theta"] * np.kron(R.number(dims[0]), R.PAULI["Z"])) @ np.kron(
                np.eye(dims[0]), R.ry(spec["theta"])
            )
        if f == "pf_cphase":  # (P,F): expm(i theta X (x) n)
            return expm(1j * spec["theta"] * np.kron(R.PAULI["X"], R.number(dims[1])))
        if f == "cp_ctrl":  # (C,P): sum_k |k><k| (x) RY(k theta)
            d = dims[0]
            m = np.zeros((2 * d, 2 * d), dtype=R.C)
            for k in range(d):
                pk = np.zeros((d, d), dtype=R.C)
                pk[k, k] = 1
                m += np.kron(pk, R.ry(k * spec["theta"]))
            return m
        if f == "ppp":  # (P,P,P): kron(RX, RY, RZ) then CSWAP-like asymmetry via CX on (0,1)
            return np.kron(R.CX, np.eye(2)) @ np.kron(
                np.kron(R.rx(spec["theta"]), R.ry(spec["theta"] / 2)), R.rz(spec["theta"] / 3)
            )
        if f == "pp_haar":  # (P,P): seeded Haar on 4 dims handed as literal
            return R.haar_unitary(4, spec["seed"])
        if f == "fff_kerr":  # (F,F,F): expm(i theta n (x) n (x) (n + 1)), diagonal hence exact at any cut-off, asymmetric
            n3 = R.number(dims[2]) + np.eye(dims[2])
            return expm(1j * spec["theta"] * np.kron(np.kron(R.number(dims[0]), R.number(dims[1])), n3))
        raise ValueError(f)
    raise ValueError(t)


def build_library_operation(spec, world=None):
    """Construct a photon_weave Operation for `spec`. Returns (Operation, user_arrays)."""
    import jax.numpy as jnp

    from photon_weave.operation import (
        CompositeOperationType,
        CustomStateOperationType,
        FockOperationType,
        Operation,
        PolarizationOperationType,
    )
    from photon_weave.state.custom_state import CustomState
    from photon_weave.state.fock import Fock
    from photon_weave.state.polarization import Polarization

    t = spec["t"]
    user = []

    def arr(m, as_np=False):
        m = np.array(m, dtype=np.complex128)
        if spec.get("dtype") == "int" and np.all(m.imag == 0) and np.all(m.real == np.round(m.real)):
            m = m.real.astype(np.int64)  # the dtype a user would naturally write for a 0/1 matrix
        a = m if as_np else jnp.asarray(m)
        user.append(a)
        return a

    as_np = spec.get("arr") == "np"

    def par(v):
        # a parameter may be handed over as a 0-d numpy array (np.asarray(x), np.squeeze(fit.x)):
        # a mutable object of the caller's, which the library must leave alone
        if spec.get("ptype") == "np0d":
            a = np.array(v)
            user.append(a)
            return a
        return v

    if t == "F.Creation":
        return Operation(FockOperationType.Creation), user
    if t == "F.Annihilation":
        return Operation(FockOperationType.Annihilation), user
    if t == "F.PhaseShift":
        return Operation(FockOperationType.PhaseShift, phi=par(spec["phi"])), user
    if t == "F.Displace":
        return Operation(FockOperationType.Displace, alpha=par(complex(spec["re"], spec["im"]))), user
    if t == "F.Squeeze":
        return Operation(FockOperationType.Squeeze, zeta=par(complex(spec["re"], spec["im"]))), user
    if t == "F.Identity":
        return Operation(FockOperationType.Identity), user
    if t == "F.Custom":
        return Operation(FockOperationType.Custom, operator=arr(custom_matrix(spec, spec["d"]))), user
    if t == "F.Expr":
        f = spec["form"]
        ctx = {
            "n": lambda dims: jnp.asarray(R.number(dims[0])),
            "a": lambda dims: jnp.asarray(R.destroy(dims[0])),
            "a_dag": lambda dims: jnp.asarray(R.create(dims[0])),
        }
        if f == "phase":
            expr = ("expm", ("s_mult", 1j, spec["theta"], "n"))
        elif f == "kerr":
            expr = ("expm", ("s_mult", 1j, spec["theta"], ("m_mult", "n", "n")))
        elif f == "rot":
            expr = ("expm", ("s_mult", spec["theta"], ("sub", "a_dag", "a")))
        else:
            raise ValueError(f)
        return Operation(FockOperationType.Expresion, expr=expr, context=ctx), user
    if t.startswith("P."):
        g = t[2:]
        if g in ("I", "X", "Y", "Z", "H", "S", "T", "SX"):
            return Operation(getattr(PolarizationOperationType, g)), user
        if g in ("RX", "RY", "RZ"):
            return Operation(getattr(PolarizationOperationType, g), theta=par(spec["theta"])), user
        if g == "U3":
            return (
                Operation(
                    PolarizationOperationType.U3,
                    # the order in which the caller writes the keywords is a choice too
                    **{k: par(spec[k]) for k in spec.get("kw", ["phi", "theta", "omega"])},
                ),
                user,
            )
        if g == "Custom":
            return (
                Operation(PolarizationOperationType.Custom, operator=arr(custom_matrix(spec, 2), as_np)),
                user,
            )
    if t == "C.Custom":
        return (
            Operation(CustomStateOperationType.Custom, operator=arr(custom_matrix(spec, spec["d"]), as_np)),
            user,
        )
    if t == "C.Expr":
        d, f = spec["d"], spec["form"]
        if f == "expm_herm":
            A = arr(_herm(d, spec["seed"]))
            ctx = {"A": lambda dims: A}
            expr = ("expm", ("s_mult", 1j, spec["theta"], "A"))
        elif f == "np_leaf":
            A = arr(_herm(d, spec["seed"]), as_np=True)
            ctx = {}
            expr = ("expm", ("s_mult", A, 1j, spec["theta"]))
        elif f == "mmult":
            U1 = arr(R.haar_unitary(d, spec["seed"]), as_np)
            U2 = arr(R.haar_unitary(d, spec["seed"] + 1))
            ctx = {"U2": lambda dims: U2}
            expr = ("m_mult", U1, "U2")
        elif f == "tree":
            tree, leaves = expr_tree(d, spec["seed"])
            arrs = {k: arr(v, as_np=(k.startswith("L") and as_np)) for k, v in leaves.items()}
            ctx = {k: (lambda dims, a=a: a) for k, a in arrs.items() if not k.startswith("L")}

            def subst(t_):
                if isinstance(t_, tuple):
                    return tuple(subst(x) for x in t_)
                if isinstance(t_, str) and t_.startswith("L"):
                    return arrs[t_]
                return t_

            expr = subst(tree)
        else:
            raise ValueError(f)
        return Operation(CustomStateOperationType.Expresion, expr=expr, context=ctx), user
    if t == "X.CX":
        return Operation(CompositeOperationType.CXPolarization), user
    if t == "X.CZ":
        return Operation(CompositeOperationType.CZPolarization), user
    if t == "X.SWAP":
        return Operation(CompositeOperationType.SwapPolarization), user
    if t == "X.CSWAP":
        return Operation(CompositeOperationType.CSwapPolarization), user
    if t == "X.BS":
        return Operation(CompositeOperationType.NonPolarizingBeamSplitter, eta=par(spec["eta"])), user
    if t == "X.Expr":
        f = spec["form"]
        kinds = spec["kinds"]
        tmap = {"F": Fock, "P": Polarization, "C": CustomState}
        st = tuple(tmap[k] for k in kinds)
        th = spec.get("theta", 0.0)
        Z = jnp.asarray(R.PAULI["Z"])
        X = jnp.asarray(R.PAULI["X"])
        if f == "bs":
            ctx = {
                "a": lambda dims: jnp.asarray(R.destroy(dims[0])),
                "a_dag": lambda dims: jnp.asarray(R.create(dims[0])),
                "b": lambda dims: jnp.asarray(R.destroy(dims[1])),
                "b_dag": lambda dims: jnp.asarray(R.create(dims[1])),
            }
            expr = (
                "expm",
                ("s_mult", 1j, th, ("add", ("kron", "a_dag", "b"), ("kron", "a", "b_dag"))),
            )
        elif f == "crosskerr":
            ctx = {
                "n1": lambda dims: jnp.asarray(R.number(dims[0])),
                "n2": lambda dims: jnp.asarray(R.number(dims[1])),
            }
            expr = ("expm", ("s_mult", 1j, th, ("kron", "n1", "n2")))
        elif f == "fp_cphase":
            ctx = {
                "n1": lambda dims: jnp.asarray(R.number(dims[0])),
                "I1": lambda dims: jnp.asarray(np.eye(dims[0], dtype=R.C)),
                "Z": lambda dims: Z,
                "RY": lambda dims: jnp.asarray(R.ry(th)),
            }
            expr = (
                "m_mult",
                ("expm", ("s_mult", 1j, th, ("kron", "n1", "Z"))),
                ("kron", "I1", "RY"),
            )
        elif f == "pf_cphase":
            ctx = {
                "n2": lambda dims: jnp.asarray(R.number(dims[1])),
                "X": lambda dims: X,
            }
            expr = ("expm", ("s_mult", 1j, th, ("kron", "X", "n2")))
        elif f == "cp_ctrl":
            d = spec["d"]
            M = arr(ref_operator(spec, [d, 2]))
            ctx = {"M": lambda dims: M}
            expr = ("add", "M")
        elif f == "ppp":
            M = arr(ref_operator(spec, [2, 2, 2]))
            ctx = {"M": lambda dims: M}
            expr = ("s_mult", 1.0, "M")
        elif f == "pp_haar":
            M = arr(ref_operator(spec, [2, 2]))
            ctx = {"M": lambda dims: M}
            expr = ("add", "M")
        elif f == "fff_kerr":
            ctx = {
                "n1": lambda dims: jnp.asarray(R.number(dims[0])),
                "n2": lambda dims: jnp.asarray(R.number(dims[1])),
                "m3": lambda dims: jnp.asarray(R.number(dims[2]) + np.eye(dims[2])),
            }
            expr = ("expm", ("s_mult", 1j, th, ("kron", "n1", "n2", "m3")))
        else:
            raise ValueError(f)
        return (
            Operation(CompositeOperationType.Expression, expr=expr, state_types=st, context=ctx),
            user,
        )
    raise ValueError(t)


# ------------------------------------------------------------------------------------------
# channels / measurement operator sets
# ------------------------------------------------------------------------------------------
def _ampdamp(d, g):
    ops = []
    for k in range(d):
        K = np.zeros((d, d), dtype=R.C)
        for n in range(k, d):
            K[n - k, n] = math.sqrt(math.comb(n, k) * (1 - g) ** (n - k) * g**k)
        ops.append(K)
    return ops


def _single_set(spec, d):
    f = spec["family"]
    if f == "dilation":
        return R.dilation_kraus(d, int(spec["n"]), int(spec["seed"]))
    if f == "unitary":
        return [R.haar_unitary(d, int(spec["seed"]))]
    if f == "ampdamp":
        return _ampdamp(d, spec["g"])
    if f == "proj":  # projective measurement in a seeded rotated basis
        U = R.haar_unitary(d, int(spec["seed"]))
        out = []
        for i in range(d):
            v = U[:, i]
            out.append(np.outer(v, v.conj()))
        return out
    if f == "perm":  # a permutation of the basis states (one integer-valued unitary)
        perm = np.random.RandomState(int(spec.get("seed", 1))).permutation(d)
        P = np.zeros((d, d), dtype=R.C)
        P[perm, np.arange(d)] = 1
        return [P]
    if f == "jump":  # M_n = |0><n|: complete, integer valued, as non-normal as it gets
        out = []
        for i in range(d):
            P = np.zeros((d, d), dtype=R.C)
            P[0, i] = 1
            out.append(P)
        return out
    if f == "basis":  # computational-basis projectors
        out = []
        for i in range(d):
            P = np.zeros((d, d), dtype=R.C)
            P[i, i] = 1
            out.append(P)
        return out
    if d == 2:
        p = spec.get("p", 0.3)
        I, X, Y, Z = (R.PAULI[k] for k in "IXYZ")
        if f == "bitflip":
            return [math.sqrt(1 - p) * I, math.sqrt(p) * X]
        if f == "phaseflip":
            return [math.sqrt(1 - p) * I, math.sqrt(p) * Z]
        if f == "depol":
            return [
                math.sqrt(1 - 3 * p / 4) * I,
                math.sqrt(p / 4) * X,
                math.sqrt(p / 4) * Y,
                math.sqrt(p / 4) * Z,
            ]
        if f == "unsharp":  # unsharp Z measurement: M_+- = sqrt((1 +- eta Z)/2)
            eta = spec.get("eta", 0.6)
            return [
                np.diag([math.sqrt((1 + eta) / 2), math.sqrt((1 - eta) / 2)]).astype(R.C),
                np.diag([math.sqrt((1 - eta) / 2), math.sqrt((1 + eta) / 2)]).astype(R.C),
            ]
    raise ValueError(f"{f} on dimension {d}")


def operator_set(spec, dims):
    """Complete operator set (sum K^dag K = I) on targets with dimensions dims (call order)."""
    if spec["family"] == "prod":
        sets = [_single_set(s, d) for s, d in zip(spec["parts"], dims)]
        out = [np.ones((1, 1), dtype=R.C)]
        for s in sets:
            out = [np.kron(a, b) for a in out for b in s]
        return out
    D = int(np.prod(dims))
    return _single_set(spec, D)


def set_applicable(spec, dims):
    try:
        if spec["family"] == "prod":
            if len(spec["parts"]) != len(dims):
                return False
            for s, d in zip(spec["parts"], dims):
                _single_set(s, d)
            return True
        D = int(np.prod(dims))
        if D > 64:
            return False
        _single_set(spec, D)
        return True
    except ValueError:
        return False


def to_library_arrays(mats, arr="jnp"):
    import jax.numpy as jnp

    if arr == "np":
        return [np.array(m, dtype=np.complex128) for m in mats]
    ms = [np.array(m, dtype=np.complex128) for m in mats]
    if arr in ("mixed", "npmixed"):
        # every operator in the dtype its entries need, as a hand-written list has it:
        # [sqrt(1-p) I, sqrt(p/3) X, sqrt(p/3) Y, sqrt(p/3) Z] is float, float, complex, float
        ms = [m.real.astype(np.float64) if np.all(m.imag == 0) else m for m in ms]
        return ms if arr == "npmixed" else [jnp.asarray(m) for m in ms]
    if arr in ("real", "int", "npint") and all(np.all(m.imag == 0) for m in ms):
        # the dtype a user would naturally write: float for real sets, int for 0/1 matrices
        if arr != "real" and all(np.all(m.real == np.round(m.real)) for m in ms):
            ms = [m.real.astype(np.int64) for m in ms]
        else:
            ms = [m.real.astype(np.float64) for m in ms]
        if arr == "npint":
            return ms
    return [jnp.asarray(m) for m in ms]
