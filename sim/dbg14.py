import sys, json
from sim import env
env.boot()
from sim import core
prop, seed = sys.argv[1], int(sys.argv[2])
rec, rr = core.run_seed(prop, seed, "quick")
for v in rec["violations"]:
    print(v["props"], v["oracle"], v["failure"], v["detail"][:300])
print("steps", rec["steps"], "twin_steps", rec["twin_steps"])
if "-r" in sys.argv:
    for r in rec["recipes"]: print(json.dumps(r))
