"""
Seams: every source of nondeterminism the properties depend on goes through here.

* ``jax.random.choice``  -> recording / forcing sampler
* ``Config.random_key``  -> recording wrapper (which keys were handed out)
* ``uuid.uuid4``         -> counter based stub (uids are hashed; dict order must not
                            depend on os.urandom)

``install()`` must be called BEFORE ``photon_weave`` is imported (``from uuid import
uuid4`` in base_state.py binds the function object at import time).
No change in /repo is required for any of this.
"""

from __future__ import annotations

import hashlib
import os
import sys
import uuid as _uuid

import numpy as np

_STATE = {
    "installed": False,
    "uuid_counter": 0,
    "mode": "forced",  # "forced" | "real"
    "draws": [],  # per step, cleared by the runner
    "keys": [],  # keys handed out by Config.random_key (as tuples)
    "sampler_keys": [],  # keys that reached the sampler (as tuples)
    "chooser": None,  # callable(p: np.ndarray, ordinal: int) -> int
    "orig_choice": None,
    "total_draws": 0,
}


def _uuid4_stub() -> _uuid.UUID:
    _STATE["uuid_counter"] += 1
    return _uuid.UUID(int=_STATE["uuid_counter"])


def _key_tuple(key) -> tuple:
    try:
        import jax

        try:
            data = jax.random.key_data(key)
        except Exception:
            data = key
        return tuple(int(x) for x in np.asarray(data).ravel())
    except Exception:
        return ("unreadable",)


def _choice(key, a, shape=(), replace=True, p=None, axis=0):
    """Replacement for jax.random.choice."""
    import jax.numpy as jnp

    st = _STATE
    a_arr = np.asarray(a)
    if a_arr.ndim == 0:
        a_arr = np.arange(int(a_arr))
    n = a_arr.shape[0]
    p_np = None if p is None else np.array(np.asarray(p), dtype=np.complex128).ravel()
    if p_np is not None and np.all(np.abs(p_np.imag) < 1e-300):
        p_np = p_np.real.astype(np.float64)
    kt = _key_tuple(key)
    st["sampler_keys"].append(kt)
    st["total_draws"] += 1
    rec = {"key": kt, "n": int(n), "p": p_np, "shape": tuple(shape) if shape else ()}
    if st["mode"] == "real":
        out = st["orig_choice"](key, a, shape=shape, replace=replace, p=p, axis=axis)
        try:
            val = int(out)
            idx = int(np.where(a_arr == val)[0][0])
        except Exception:
            idx = -1
        rec["idx"] = idx
        rec["forced"] = False
        st["draws"].append(rec)
        return out
    # forced mode
    ordinal = len(st["draws"])
    chooser = st["chooser"]
    if chooser is None:
        idx = 0
    else:
        idx = int(chooser(p_np if p_np is not None else np.full(n, 1.0 / n), ordinal, n))
    if idx < 0 or idx >= n:
        idx = 0
    rec["idx"] = idx
    rec["forced"] = True
    st["draws"].append(rec)
    return jnp.asarray(a_arr[idx])


def install() -> None:
    st = _STATE
    if st["installed"]:
        return
    if "photon_weave" in sys.modules:
        raise RuntimeError("HARNESS: seams must be installed before importing photon_weave")
    _uuid.uuid4 = _uuid4_stub
    import jax

    st["orig_choice"] = jax.random.choice
    jax.random.choice = _choice
    st["installed"] = True


def wrap_config() -> None:
    """Wrap Config.random_key (after photon_weave is imported)."""
    from photon_weave.photon_weave import Config

    if getattr(Config, "_verif_wrapped", False):
        return
    orig = Config.random_key.fget

    def fget(self):
        k = orig(self)
        _STATE["keys"].append(_key_tuple(k))
        return k

    Config.random_key = property(fget)
    Config._verif_wrapped = True


def reset(mode: str = "forced", chooser=None) -> None:
    st = _STATE
    st["uuid_counter"] = 0
    st["mode"] = mode
    st["draws"] = []
    st["keys"] = []
    st["sampler_keys"] = []
    st["chooser"] = chooser
    st["total_draws"] = 0


def take_draws() -> list:
    d = _STATE["draws"]
    _STATE["draws"] = []
    return d


def keys_log() -> list:
    return _STATE["keys"]


def sampler_keys_log() -> list:
    return _STATE["sampler_keys"]


def set_mode(mode: str) -> None:
    _STATE["mode"] = mode


def set_chooser(chooser) -> None:
    _STATE["chooser"] = chooser


def state() -> dict:
    return _STATE


def h64(*parts) -> int:
    """Stable 64-bit hash of the parts (used to derive every sub-stream)."""
    m = hashlib.blake2b(digest_size=8)
    for p in parts:
        m.update(repr(p).encode())
        m.update(b"|")
    return int.from_bytes(m.digest(), "big")


def unit(*parts) -> float:
    """Deterministic uniform in [0,1) from the parts."""
    return h64(*parts) / 2.0**64
