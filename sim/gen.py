"""
Seeded generator: swarm configuration, scenario prefixes, action families, perturbations and
fault placement.  Everything is drawn from one ``random.Random`` seeded from (seed, profile).
"""

from __future__ import annotations

import math
import os
import random

import numpy as np

from sim import actions, seams, specs

PI = math.pi

# ------------------------------------------------------------------------------------------
# profiles: family weights and knobs
# ------------------------------------------------------------------------------------------
BASE = {
    "op1": 10,
    "opx": 6,
    "kraus": 3,
    "measure": 3,
    "povm": 2,
    "struct": 6,
    "trace_out": 2,
    "resize": 2,
    "mk_ce": 1.5,
    "config": 0.7,
    "fault": 0,
    "mk_op": 0.5,
}


def _p(**kw):
    d = dict(BASE)
    d.update(kw)
    return d


PROFILES = {
    "C01": {"w": _p(op1=22, opx=4, struct=7, measure=1.5, povm=0.7, kraus=2), "clients": (1, 2), "fault_rate": 0.0},
    "C02": {"w": _p(struct=18, trace_out=7, mk_ce=3, op1=6, opx=5, measure=1, povm=0.5), "clients": (1, 2), "fault_rate": 0.0},
    "C03": {"w": _p(opx=22, op1=6, struct=6, mk_ce=2, measure=1, povm=0.5), "clients": (1, 1), "fault_rate": 0.0, "min_envs": 2},
    "C04": {"scen_bias": ("envsep", 0.1), "w": _p(measure=14, op1=10, opx=8, struct=5, povm=1), "clients": (1, 2), "fault_rate": 0.0},
    "C05": {"scen_bias": ("envsep", 0.1), "w": _p(measure=14, op1=9, opx=8, struct=5, povm=1, fault=2), "clients": (1, 2), "fault_rate": 0.12, "faults": ["use_destroyed"]},
    "C06": {"scen_bias": ("paulinoise", 0.12), "w": _p(kraus=16, op1=8, opx=7, struct=5, measure=1), "clients": (1, 1), "fault_rate": 0.0},
    "C07": {"scen_bias": ("recombine", 0.1), "w": _p(), "clients": (1, 2), "fault_rate": 0.0, "nonunitary": 0.3},
    "C08": {"scen_bias": ("weaknoise", 0.12), "wide_rate": 0.0, "w": _p(struct=14, config=3, kraus=5, op1=10, opx=6), "clients": (1, 1), "fault_rate": 0.0, "struct_bias": "level", "no_estimator": True},
    "C09": {"w": _p(povm=16, op1=9, opx=8, struct=5, measure=1, kraus=2), "clients": (1, 1), "fault_rate": 0.0},
    "C10": {"w": _p(resize=14, op1=12, opx=5, struct=5, kraus=2, measure=1), "clients": (1, 1), "fault_rate": 0.15, "faults": ["shrink_below_support"], "fock_bias": True},
    "C11": {"w": _p(opx=16, op1=10, struct=5, measure=2, kraus=1, povm=0.3, resize=1), "clients": (1, 1), "fault_rate": 0.0, "fock_bias": True, "optics": True, "min_envs": 2},
    "C13": {"scen_bias": ("lopsided", 0.12), "w": _p(mk_ce=8, measure=8, struct=8, opx=8, op1=4, povm=2), "clients": (2, 3), "fault_rate": 0.0, "min_envs": 2},
    "C14": {"wide_rate": 0.0, "w": _p(measure=10, povm=5, op1=10, opx=8, struct=4, config=0), "clients": (1, 2), "fault_rate": 0.0},
    "C15": {"wide_rate": 0.0, "w": _p(op1=14, opx=10, mk_op=4, struct=4, measure=1, kraus=2), "clients": (1, 2), "fault_rate": 0.0, "reuse": True},
    "C17": {"w": _p(fault=0), "clients": (1, 2), "fault_rate": 0.25},
    "C18": {"wide_rate": 0.0, "w": _p(measure=12, mk_ce=4, struct=6, trace_out=4, opx=10, op1=5, kraus=3, povm=2, resize=2), "clients": (1, 2), "fault_rate": 0.0, "equal_values": True, "min_envs": 3},
    "C20": {"w": _p(mk_ce=3, opx=9, kraus=4, povm=3, measure=6, trace_out=6, resize=2, struct=10), "struct_bias": "level", "clients": (2, 2), "fault_rate": 0.1, "faults": ["kraus_not_tp", "kraus_wrong_shape", "povm_wrong_shape", "wrong_kind", "outside_container"], "min_envs": 3},
    "ALL": {"w": _p(fault=0), "clients": (1, 3), "fault_rate": 0.08},
}

ALPHAS = [(0.0, 0.0), (0.3, 0.0), (0.5, 0.0), (-0.4, 0.3), (0.0, 0.6), (0.25, -0.45), (-0.7, 0.0), (0.9, 0.4), (-1.147, 1.031)]
ZETAS = [(0.0, 0.0), (0.2, 0.0), (0.0, 0.3), (-0.25, 0.2), (0.35, -0.1), (0.426, 0.517)]


class Gen:
    def __init__(self, seed, profile_name, tier="quick", overrides=None):
        self.seed = seed
        self.name = profile_name
        self.prof = dict(PROFILES[profile_name])
        if overrides:
            self.prof.update(overrides)
        self.tier = tier
        if os.environ.get("VERIF_SCEN"):  # debugging aid: force one scenario prefix
            self.prof["scenario"] = os.environ["VERIF_SCEN"]
        self.rng = random.Random(seams.h64(seed, "gen", profile_name))
        rng = self.rng
        self.nclients = rng.randint(*self.prof["clients"])
        hi = 40 if tier == "quick" else 70
        self.max_steps = rng.randint(10, hi)
        self.fault_rate = self.prof.get("fault_rate", 0.0)
        if self.fault_rate and rng.random() < 0.3:
            self.fault_rate = 0.0  # fault-free configuration of a fault profile
        self.perturb_rate = rng.choice([0.0, 0.1, 0.2, 0.3])
        self.contraction = rng.random() < 0.7
        self.debuglog = False  # drawn at the END of __init__ (keeps earlier seeds' programs unchanged)
        self.entry_bias = rng.choice(["any", "any", "state", "env", "ce"])
        self.nonunitary = self.prof.get("nonunitary", 0.12)
        self.sid = 0
        self.queue = []
        self.ops = {}  # name -> spec (pool)
        self.retired = set()  # names whose Operation object goes by another name now (mut_op)
        self.next_env = 0
        self.next_custom = 0
        self.next_ce = 0
        self.next_op = 0
        self.client_envs = {}
        self.client_customs = {}
        self.client_ces = {}
        self.last_kind = None
        self._setup()
        # the process-wide logging level is an environment dimension: root logger at DEBUG in a fifth of the runs
        self.debuglog = random.Random(seams.h64(seed, "debuglog", profile_name)).random() < 0.2

    # ---------------------------------------------------------------- setup
    def _emit(self, r):
        self.sid += 1
        r = dict(r)
        r["sid"] = self.sid
        return r

    def _new_env(self, client, fock=None, pol=None, dims=None):
        rng = self.rng
        name = f"e{self.next_env}"
        self.next_env += 1
        if fock is None:
            if self.prof.get("equal_values"):
                fock = rng.choice([0, 0, 0, 1, 1])
            else:
                fock = rng.choice([0, 0, 1, 1, 2, 3] if self.prof.get("fock_bias") else [0, 0, 0, 1, 1, 2])
        if pol is None:
            pol = rng.choice(["H", "H", "V", "R", "L"]) if not self.prof.get("equal_values") else rng.choice(["H", "H", "V"])
        if dims is None and rng.random() < 0.35:
            dims = fock + rng.choice([1, 2, 3])
            if rng.random() < 0.12:
                dims = rng.randint(8, 16)  # a larger (still realistic) cut-off now and then
        self.client_envs.setdefault(client, []).append(name)
        r = {"do": "mk_env", "name": name, "client": client, "fock": fock, "pol": pol}
        if dims:
            r["dims"] = dims
        if rng.random() < 0.25:
            r["explicit"] = True  # Envelope(fock=Fock(), polarization=Polarization(label))
            if rng.random() < 0.3:
                r["subclass"] = True  # user subclasses of Envelope, Fock and Polarization
        return r

    def _new_custom(self, client, d=None):
        rng = self.rng
        name = f"s{self.next_custom}"
        self.next_custom += 1
        d = d or rng.choice([2, 3, 3, 4])
        self.client_customs.setdefault(client, []).append(name)
        r = {"do": "mk_custom", "name": name, "client": client, "d": d, "label": rng.choice([0, 0, 1])}
        if rng.random() < 0.2:
            r["subclass"] = True  # class QuantumDot(CustomState)
        return r

    def _new_ce(self, client, of):
        name = f"ce{self.next_ce}"
        self.next_ce += 1
        self.client_ces.setdefault(client, []).append(name)
        return {"do": "mk_ce", "name": name, "client": client, "of": list(of)}

    def _new_op(self, spec):
        if spec.get("t") in ("P.RX", "P.RY", "P.RZ", "P.U3", "F.PhaseShift", "F.Displace", "F.Squeeze", "X.BS") and "ptype" not in spec and self.rng.random() < 0.12:
            spec = dict(spec, ptype="np0d")  # parameters as 0-d numpy arrays
        for k, v in self.ops.items():
            if v == spec and k not in self.retired:
                return k
        name = f"op{self.next_op}"
        self.next_op += 1
        self.ops[name] = spec
        return name

    def _setup(self):
        rng = self.rng
        q = self.queue
        for c in range(self.nclients):
            scen = None
            if c == 0 and rng.random() < 0.6:
                scen = rng.choice(SCENARIOS)
            if self.prof.get("optics") and c == 0 and rng.random() < 0.5:
                scen = rng.choice(["bs2", "mz", "mz"])
            if self.prof.get("fock_bias") and not self.prof.get("optics") and c == 0 and rng.random() < 0.3:
                scen = "cancel"
            if self.prof.get("equal_values") and c == 0 and rng.random() < 0.35:
                scen = rng.choice(["equalmeasure", "equalmeasure", "twinprep"])
            if (self.prof.get("reuse") or self.prof.get("fock_bias")) and not self.prof.get("no_estimator") and c == 0 and rng.random() < 0.08:
                scen = "rephase"
            if c == 0 and self.prof.get("scen_bias") and rng.random() < self.prof["scen_bias"][1]:
                scen = self.prof["scen_bias"][0]
            if c == 0 and self.prof.get("scenario"):
                scen = self.prof["scenario"]
            elif c == 0 and rng.random() < self.prof.get("wide_rate", 0.0):
                scen = "wide"
            if scen in ("wide", "long"):
                self.max_steps = min(self.max_steps, 6)
            if scen:
                q.extend(self._scenario(scen, c))
            n_env = rng.randint(max(1, self.prof.get("min_envs", 1)), 3)
            have = len(self.client_envs.get(c, []))
            for _ in range(max(0, n_env - have)):
                q.append(self._new_env(c))
            for _ in range(rng.choice([0, 0, 1, 1, 2]) - len(self.client_customs.get(c, []))):
                q.append(self._new_custom(c))
            if not self.client_ces.get(c) and rng.random() < 0.75:
                members = list(self.client_envs.get(c, [])) + list(self.client_customs.get(c, []))
                rng.shuffle(members)
                k = rng.randint(1, len(members))
                q.append(self._new_ce(c, members[:k]))
        self.queue = [self._emit(r) for r in q]

    def _scenario(self, scen, c):
        rng = self.rng
        q = []

        def op(spec, entry, on, ce=None, env=None):
            r = {"do": "op", "entry": entry, "op": self._new_op(spec), "on": on, "client": c}
            if ce:
                r["ce"] = ce
            if env:
                r["env"] = env
            return r

        th = round(rng.uniform(0.2, 2.9), 6)
        if scen == "bell":
            a, b = self._new_env(c, pol="H"), self._new_env(c, pol=rng.choice(["H", "V"]))
            ce = self._new_ce(c, [a["name"], b["name"]])
            q += [a, b, ce]
            q.append(op({"t": "P.RY", "theta": th}, "state", [a["name"] + ".p"]))
            q.append(op({"t": "X.CX"}, "ce", [a["name"] + ".p", b["name"] + ".p"], ce=ce["name"]))
        elif scen == "ghz":
            es = [self._new_env(c, pol="H") for _ in range(3)]
            ce = self._new_ce(c, [e["name"] for e in es])
            q += es + [ce]
            q.append(op({"t": "P.H"}, "state", [es[0]["name"] + ".p"]))
            q.append(op({"t": "X.CX"}, "ce", [es[0]["name"] + ".p", es[1]["name"] + ".p"], ce=ce["name"]))
            q.append(op({"t": "X.CX"}, "ce", [es[1]["name"] + ".p", es[2]["name"] + ".p"], ce=ce["name"]))
        elif scen == "bs2":
            a, b = self._new_env(c, fock=rng.choice([1, 1, 2])), self._new_env(c, fock=rng.choice([0, 0, 1]))
            ce = self._new_ce(c, [a["name"], b["name"]])
            q += [a, b, ce]
            eta = round(rng.uniform(-2 * PI, 2 * PI), 6) if rng.random() < 0.75 else self.tiny()
            q.append(op({"t": "X.BS", "eta": eta}, "ce", [a["name"] + ".f", b["name"] + ".f"], ce=ce["name"]))
            if abs(eta) < 0.1:
                q.append(op({"t": "F.PhaseShift", "phi": th}, rng.choice(["state", "ce"]), [b["name"] + ".f"], ce=ce["name"]))
        elif scen == "wide":
            # one product space of 1024 or 2048 dimensions (8 to 11 members): index plumbing beyond
            # single digits and code paths chosen by size
            big = [(9, 4), (11, 0)]  # 2048: about 45 s per run
            small = [(8, 4), (10, 0), (8, 3), (9, 0)]
            n, d = rng.choice({"big": big, "small": small}.get(self.prof.get("wide_size"), small + big))
            es = [self._new_env(c, fock=0, pol=rng.choice(["H", "V"])) for _ in range(n)]
            for e in es:
                e.pop("dims", None)
            members = [e["name"] for e in es]
            s = self._new_custom(c, d=d) if d else None
            if s:
                members.insert(rng.randrange(len(members) + 1), s["name"])
            ce = self._new_ce(c, members)
            q += es + ([s] if s else []) + [ce]
            P = [e["name"] + ".p" for e in es]
            q.append(op({"t": "P.RX", "theta": th}, "state", [P[0]]))
            for i in range(n - 1):
                q.append(op({"t": "X.CX"}, "ce", [P[i], P[i + 1]], ce=ce["name"]))
            if s:
                q.append(op({"t": "X.Expr", "form": "cp_ctrl", "kinds": ["C", "P"], "d": d, "theta": th}, "ce", [s["name"], P[-1]], ce=ce["name"]))
            k = rng.randrange(1, n - 1)
            q.append(op({"t": "P.U3", "phi": th, "theta": round(th / 3, 6), "omega": round(-th / 2, 6)}, rng.choice(["state", "ce"]), [P[k]], ce=ce["name"]))
            q.append(op({"t": "X.CZ"}, "ce", [P[-1], P[1]], ce=ce["name"]))
            tgt = s["name"] if s and rng.random() < 0.6 else rng.choice(P)
            td = d if tgt == (s or {}).get("name") else 2
            if rng.random() < 0.7:
                ch = {"family": "dilation", "n": 2, "seed": rng.randint(1, 40)}
                q.append({"do": "kraus", "entry": rng.choice(["state", "ce"]), "ce": ce["name"], "ch": ch, "on": [rng.choice(P)], "client": c})
            q.append({"do": "povm", "entry": rng.choice(["state", "ce"]), "ce": ce["name"], "m": {"family": "dilation", "n": 3, "seed": rng.randint(1, 40)}, "on": [tgt], "destr": False, "client": c})
            q.append({"do": "trace_out", "entry": "ce", "ce": ce["name"], "on": [P[-2], P[0]], "client": c})
            q.append({"do": "measure", "entry": "ce", "ce": ce["name"], "on": [P[k]], "sep": True, "destr": True, "client": c})
            q.append(op({"t": "P.RY", "theta": th}, "ce", [P[0]], ce=ce["name"]))
        elif scen == "rephase":
            # one Operation object applied to inputs that differ only in their relative phases
            # (|+b> and |-b>): whatever an operation remembers about an earlier input must not matter
            a, b = self._new_env(c, fock=0), self._new_env(c, fock=0)
            a.pop("dims", None)
            b.pop("dims", None)
            al = rng.choice([x for x in ALPHAS if 0.2 < abs(complex(*x)) < 1.0])
            D = {"t": rng.choice(["F.Displace", "F.Displace", "F.Squeeze"]), "re": al[0], "im": al[1]}
            if D["t"] == "F.Squeeze":
                z = rng.choice([x for x in ZETAS if abs(complex(*x)) > 0.1])
                D["re"], D["im"] = z
            q += [a, b]
            fa, fb = a["name"] + ".f", b["name"] + ".f"
            q.append(op(D, "state", [fa]))
            q.append(op(D, "state", [fb]))
            q.append(op({"t": "F.PhaseShift", "phi": round(PI, 9) if D["t"] == "F.Displace" else round(PI / 2, 9)}, "state", [fa]))
            q.append(op(D, "state", [fa]))
            q.append(op(D, "state", [fb]))
        elif scen == "recombine":
            # life cycle of one envelope: combined, absorbed into a composite product space, measured
            # without being destroyed (members come back as labels), one member made mixed, combined
            # again - whatever the envelope remembered from its first product state is stale by then
            a, b = self._new_env(c), self._new_env(c)
            ce = self._new_ce(c, [a["name"], b["name"]])
            q += [a, b, ce]
            ap, af, bp = a["name"] + ".p", a["name"] + ".f", b["name"] + ".p"
            q.append(op({"t": "P.RY", "theta": th}, "state", [ap]))
            q.append({"do": "env.combine", "env": a["name"], "client": c})
            if rng.random() < 0.5:
                q.append({"do": "env.expand", "env": a["name"], "client": c})
            q.append(op({"t": "X.CX"}, "ce", [ap, bp], ce=ce["name"]))
            q.append({"do": "measure", "entry": rng.choice(["ce", "state"]), "ce": ce["name"], "on": [ap], "sep": False, "destr": False, "client": c})
            how = rng.choice(["kraus", "expand", "povm"])
            tgt = rng.choice([ap, af])
            if how == "kraus" and tgt == ap:
                q.append({"do": "kraus", "entry": "state", "ch": {"family": "depol", "p": round(rng.uniform(0.1, 0.9), 4)}, "on": [ap], "client": c})
            elif how == "povm" and tgt == ap:
                q.append({"do": "povm", "entry": "state", "m": {"family": "unsharp", "eta": round(rng.uniform(0.2, 0.8), 4)}, "on": [ap], "destr": False, "partial": True, "client": c})
            else:
                q.append({"do": "sub.expand", "sub": tgt, "client": c})
                q.append({"do": "sub.expand", "sub": tgt, "client": c})
            end = rng.choice(["combine", "kraus2", "trace2"])
            if end == "combine":
                q.append({"do": "env.combine", "env": a["name"], "client": c})
            elif end == "kraus2":
                q.append({"do": "kraus", "entry": "env", "env": a["name"], "ch": {"family": "dilation", "n": 2, "seed": rng.randint(1, 40)}, "on": [af, ap], "client": c})
            else:
                q.append({"do": "trace_out", "entry": "env", "env": a["name"], "on": [ap, af], "client": c})
        elif scen == "equalmeasure":
            # several Fock spaces holding the SAME number, stored in different ways (label in the object,
            # combined inside its envelope, partner of a polarization in a composite product space), then
            # one multi-operand measurement: every place that finds "its" Fock by value goes wrong here
            nlab = rng.choice([0, 1, 1, 2])
            es = [self._new_env(c, fock=nlab) for _ in range(3)]
            for e in es:
                e.pop("dims", None)
            ce = self._new_ce(c, [e["name"] for e in es])
            q += es + [ce]
            A, B, C = (e["name"] for e in es)
            if rng.random() < 0.6:
                q.append(op({"t": "P.RY", "theta": th}, "state", [A + ".p"]))
            if rng.random() < 0.8:
                q.append({"do": "env.combine", "env": A, "client": c})
            q.append(op({"t": "P.RY", "theta": round(th / 2, 6)}, "state", [B + ".p"]))
            q.append(op({"t": "X.CX"}, "ce", [B + ".p", C + ".p"], ce=ce["name"]))
            pool = [B + ".p", A + ".p", A + ".f", B + ".f", C + ".p", C + ".f"]
            on = rng.sample(pool, rng.choice([2, 2, 3]))
            q.append({"do": "measure", "entry": "ce", "ce": ce["name"], "on": on, "sep": False, "destr": rng.random() < 0.4, "style": rng.choice(["kw", "min"]), "client": c})
        elif scen == "long":
            # one product space with MANY members of tiny dimension (idle vacuum modes have cut-off 1):
            # index bookkeeping beyond 26 subsystems (einsum subscripts, digit counts) at negligible size
            n = rng.choice([23, 24, 25, 26, 27])
            idle = [self._new_env(c, fock=0, pol="H") for _ in range(n)]
            for e in idle:
                e.pop("dims", None)
                e.pop("explicit", None)
            ph = [self._new_env(c, fock=1, pol="H") for _ in range(2)]
            for e in ph:
                e.pop("dims", None)
            ce = self._new_ce(c, [e["name"] for e in idle + ph])
            q += idle + ph + [ce]
            F = [e["name"] + ".f" for e in idle]
            eta = round(rng.uniform(0.3, 1.2), 6)
            for i in range(n - 1):
                q.append(op({"t": "X.BS", "eta": eta}, "ce", [F[i], F[i + 1]], ce=ce["name"]))
            p0, p1 = ph[0]["name"] + ".f", ph[1]["name"] + ".f"
            q.append(op({"t": "X.BS", "eta": eta}, "ce", [p0, F[0]], ce=ce["name"]))
            q.append(op({"t": "X.BS", "eta": round(eta / 2, 6)}, "ce", [p1, F[1]], ce=ce["name"]))
            q.append(op({"t": "X.BS", "eta": round(-eta, 6)}, "ce", [F[2], p0], ce=ce["name"]))
            q.append(op({"t": "F.PhaseShift", "phi": th}, rng.choice(["state", "ce"]), [p1], ce=ce["name"]))
            q.append({"do": "trace_out", "entry": "ce", "ce": ce["name"], "on": [p0, p1, F[0]], "client": c})
            q.append({"do": "measure", "entry": "ce", "ce": ce["name"], "on": [p0], "sep": True, "destr": True, "client": c})
            q.append(op({"t": "X.BS", "eta": eta}, "ce", [p1, F[3]], ce=ce["name"]))
        elif scen == "lopsided":
            # a merge in which the composite that is appended has MORE product spaces than the one it
            # is appended to, then work on the appended product spaces (reorder, consume one)
            A = [self._new_env(c) for _ in range(2)]
            B = [self._new_env(c) for _ in range(rng.choice([4, 4, 6]))]
            q += A + B
            ca = self._new_ce(c, [e["name"] for e in A])
            cb = self._new_ce(c, [e["name"] for e in B])
            q += [ca]
            if rng.random() < 0.8:
                q.append(op({"t": "P.RY", "theta": th}, "state", [A[0]["name"] + ".p"]))
                q.append(op({"t": "X.CX"}, "ce", [A[0]["name"] + ".p", A[1]["name"] + ".p"], ce=ca["name"]))
            q += [cb]
            for i in range(0, len(B), 2):
                q.append(op({"t": "P.RX", "theta": round(th / (i + 1), 6)}, "state", [B[i]["name"] + ".p"]))
                q.append(op({"t": "X.CX"}, "ce", [B[i]["name"] + ".p", B[i + 1]["name"] + ".p"], ce=cb["name"]))
            first, second = (ca, cb) if rng.random() < 0.75 else (cb, ca)
            m = self._new_ce(c, [first["name"], second["name"]])
            q.append(m)
            k = rng.choice(range(0, len(B), 2))
            x, y = B[k]["name"] + ".p", B[k + 1]["name"] + ".p"
            q.append({"do": "ce.reorder", "ce": rng.choice([m["name"], cb["name"]]), "on": [y, x], "client": c})
            q.append(op({"t": "P.RZ", "theta": th}, "state", [y]))
            if rng.random() < 0.6:
                q.append({"do": "povm", "entry": "ce", "ce": m["name"], "m": {"family": "dilation", "n": 2, "seed": rng.randint(1, 40)}, "on": [x, y], "destr": True, "client": c})
            q.append(op({"t": "P.H"}, "state", [B[(k + 2) % len(B)]["name"] + ".p"]))
        elif scen == "paulinoise":
            # the textbook way to write noise on one photon for the whole envelope: kron of a Pauli set
            # with the identity, every operator in the dtype its entries need (only Y is complex),
            # applied to a fresh (real valued) envelope through the envelope or its composite
            a, b = self._new_env(c, fock=rng.choice([0, 1, 1, 2])), self._new_env(c)
            a["dims"] = a["fock"] + rng.choice([1, 2])
            ce = self._new_ce(c, [a["name"], b["name"]])
            q += [a, b, ce]
            if rng.random() < 0.5:
                q.append(op({"t": "P.RY", "theta": th}, "state", [a["name"] + ".p"]))  # real rotation
            on = [a["name"] + ".p", a["name"] + ".f"]
            rng.shuffle(on)
            parts = [{"family": "depol", "p": round(rng.uniform(0.05, 0.9), 4)} if n_.endswith(".p") else {"family": rng.choice(["perm", "ampdamp", "jump"]), "seed": 1, "g": 0.3} for n_ in on]
            ent = rng.choice(["env", "ce"])
            q.append({"do": "kraus", "entry": ent, "env": a["name"], "ce": ce["name"], "ch": {"family": "prod", "parts": parts}, "on": on, "arr": rng.choice(["mixed", "npmixed"]), "client": c})
        elif scen == "envsep":
            # one photon whose Fock and polarization parts are correlated inside its own (combined)
            # envelope, at vector or matrix level, then ONE member measured on its own
            a = self._new_env(c, fock=rng.choice([0, 1, 1, 2]))
            a["dims"] = a["fock"] + rng.choice([1, 2])
            q += [a]
            af, ap = a["name"] + ".f", a["name"] + ".p"
            on = [af, ap]
            rng.shuffle(on)
            fam = rng.choice([{"family": "unitary", "seed": rng.randint(1, 40)}, {"family": "dilation", "n": 2, "seed": rng.randint(1, 40)}])
            q.append({"do": "kraus", "entry": "env", "env": a["name"], "ch": fam, "on": on, "client": c})
            if rng.random() < 0.3:
                q.append({"do": "env.expand", "env": a["name"], "client": c})
            tgt = rng.choice([af, ap])
            q.append({"do": "measure", "entry": rng.choice(["env", "state"]), "env": a["name"], "on": [tgt], "sep": True, "destr": rng.random() < 0.5, "style": rng.choice(["kw", "min"]), "client": c})
        elif scen == "twinprep":
            # two photons prepared IDENTICALLY (same labels, the same entangling step inside each envelope):
            # their reduced states are bitwise equal, which no shortcut may take for "nothing to do"
            nlab = rng.choice([0, 1, 1, 2])
            a, b = self._new_env(c, fock=nlab, pol="H"), self._new_env(c, fock=nlab, pol="H")
            for e in (a, b):
                e["dims"] = nlab + 2
                e.pop("explicit", None)
                e.pop("subclass", None)
            ce = self._new_ce(c, [a["name"], b["name"]])
            q += [a, b, ce]
            fam = {"family": "unitary", "seed": rng.randint(1, 40)}
            order = rng.choice([[".f", ".p"], [".p", ".f"]])
            how = rng.choice(["kraus", "local"])
            for e in (a, b):
                if how == "kraus":
                    q.append({"do": "kraus", "entry": "env", "env": e["name"], "ch": dict(fam), "on": [e["name"] + order[0], e["name"] + order[1]], "client": c})
                else:
                    q.append(op({"t": "P.RY", "theta": th}, "state", [e["name"] + ".p"]))
            g = rng.choice(["X.SWAP", "X.SWAP", "X.CX", "X.CZ"])
            q.append(op({"t": g}, "ce", [a["name"] + ".p", b["name"] + ".p"], ce=ce["name"]))
        elif scen == "weaknoise":
            # weak noise on one photon of an entangled pure state: purity deficits around the
            # library's "is it pure" tolerances
            n = rng.choice([2, 3])
            es = [self._new_env(c, pol="H") for _ in range(n)]
            ce = self._new_ce(c, [e["name"] for e in es])
            q += es + [ce]
            q.append(op({"t": "P.RY", "theta": th}, "state", [es[0]["name"] + ".p"]))
            for i in range(n - 1):
                q.append(op({"t": "X.CX"}, "ce", [es[i]["name"] + ".p", es[i + 1]["name"] + ".p"], ce=ce["name"]))
            for _ in range(rng.choice([1, 2, 3])):
                t = rng.choice(es)["name"] + ".p"
                ch = {"family": rng.choice(["phaseflip", "bitflip", "depol"]), "p": round(10 ** rng.uniform(-7.5, -3.5), 12)}
                ent = rng.choice(["state", "ce"])
                q.append({"do": "kraus", "entry": ent, "ce": ce["name"], "ch": ch, "on": [t], "client": c})
            if rng.random() < 0.5:
                q.append({"do": "ps.contract", "sub": es[0]["name"] + ".p", "ce": ce["name"], "tol": rng.choice([1e-5, 1e-4, 1e-3]), "client": c})
        elif scen == "mz":
            a, b = self._new_env(c, fock=1, pol="H", dims=0), self._new_env(c, fock=0, pol="H", dims=0)
            ce = self._new_ce(c, [a["name"], b["name"]])
            phi = round(rng.uniform(-2 * PI, 2 * PI), 6)
            q += [a, b, ce]
            fa, fb = a["name"] + ".f", b["name"] + ".f"
            if rng.random() < 0.35:
                # the photon is prepared inside its envelope first (combined, polarization gate): the
                # envelope's product state is then stored polarization first
                q.append({"do": "env.combine", "env": a["name"], "client": c})
                q.append(op({"t": "P." + rng.choice(["H", "X", "RY"]), "theta": th}, rng.choice(["state", "env"]), [a["name"] + ".p"], env=a["name"]))
            q.append(op({"t": "X.BS", "eta": round(PI / 4, 9)}, "ce", [fa, fb], ce=ce["name"]))
            q.append(op({"t": "F.PhaseShift", "phi": phi}, "state", [fa]))
            q.append(op({"t": "X.BS", "eta": round(PI / 4, 9)}, "ce", [fa, fb], ce=ce["name"]))
            q.append({"do": "measure", "entry": "ce", "ce": ce["name"], "on": [fa], "sep": True, "destr": True, "client": c, "mz": {"phi": phi, "port": 1}})
            q.append({"do": "measure", "entry": "ce", "ce": ce["name"], "on": [fb], "sep": True, "destr": True, "client": c, "mz": {"phi": phi, "port": 2, "after": fa}})
        elif scen == "cancel":
            # amplitudes of opposite sign on the partner: |n>(|H> - |V>)/sqrt2 in ONE product space, where
            # "sum of amplitudes" short cuts (support checks, marginals) cancel exactly
            a, b = self._new_env(c, fock=rng.choice([1, 2, 3]), pol="V"), self._new_env(c)
            a["dims"] = a["fock"] + rng.choice([1, 2])
            ce = self._new_ce(c, [a["name"], b["name"]])
            q += [a, b, ce]
            q.append(op({"t": "P.H"}, "state", [a["name"] + ".p"]))
            q.append({"do": "ce.combine", "ce": ce["name"], "on": [a["name"] + ".f", a["name"] + ".p"], "client": c})
            if rng.random() < 0.5:
                q.append({"do": "fault", "kind": "shrink_below_support", "on": [a["name"] + ".f"], "entry": rng.choice(["state", "ce"]), "ce": ce["name"], "below": 0, "client": c})
        elif scen == "envcomb":
            a, b = self._new_env(c), self._new_env(c)
            q += [a, b]
            q.append(op({"t": "P.U3", "phi": th, "theta": round(th / 2, 6), "omega": round(-th, 6)}, "state", [a["name"] + ".p"]))
            q.append({"do": "env.combine", "env": a["name"], "client": c})
            ce = self._new_ce(c, [a["name"], b["name"]])
            q.append(ce)
            q.append(op({"t": "X.CZ"}, "ce", [b["name"] + ".p", a["name"] + ".p"], ce=ce["name"]))
        elif scen == "two_ps":
            es = [self._new_env(c) for _ in range(4)]
            ce = self._new_ce(c, [e["name"] for e in es])
            q += es + [ce]
            for i in (0, 2):
                q.append(op({"t": "P.RX", "theta": th}, "state", [es[i]["name"] + ".p"]))
                q.append(op({"t": "X.CX"}, "ce", [es[i]["name"] + ".p", es[i + 1]["name"] + ".p"], ce=ce["name"]))
        elif scen == "merged":
            es = [self._new_env(c) for _ in range(4)]
            q += es
            ca = self._new_ce(c, [es[0]["name"], es[1]["name"]])
            cb = self._new_ce(c, [es[2]["name"], es[3]["name"]])
            q += [ca]
            q.append(op({"t": "P.H"}, "state", [es[0]["name"] + ".p"]))
            q.append(op({"t": "X.CX"}, "ce", [es[0]["name"] + ".p", es[1]["name"] + ".p"], ce=ca["name"]))
            q += [cb]
            q.append(op({"t": "P.RY", "theta": th}, "state", [es[2]["name"] + ".p"]))
            q.append(op({"t": "X.CX"}, "ce", [es[2]["name"] + ".p", es[3]["name"] + ".p"], ce=cb["name"]))
            q.append(self._new_ce(c, [ca["name"], cb["name"]]))
        elif scen == "mixed_custom":
            a = self._new_env(c)
            s = self._new_custom(c, d=3)
            ce = self._new_ce(c, [a["name"], s["name"]])
            q += [a, s, ce]
            q.append(op({"t": "C.Custom", "d": 3, "u": "haar", "seed": rng.randint(1, 50)}, "state", [s["name"]]))
            q.append({"do": "kraus", "entry": "state", "ch": {"family": "depol", "p": round(rng.uniform(0.1, 0.9), 4)}, "on": [a["name"] + ".p"], "client": c})
            q.append(op({"t": "X.Expr", "form": "cp_ctrl", "kinds": ["C", "P"], "d": 3, "theta": th}, "ce", [s["name"], a["name"] + ".p"], ce=ce["name"]))
        for r in q:
            r.setdefault("client", c)
        return q

    # ---------------------------------------------------------------- stepping
    def next(self, world, pre, i):
        if self.queue:
            return self.queue.pop(0)
        if i >= self.max_steps:
            return None
        rng = self.rng
        client = rng.randrange(self.nclients)
        for _ in range(12):
            r = self._propose(world, pre, client)
            if r is None:
                continue
            r["client"] = client
            ok, _ = actions.applicable(world, pre, {**r, "sid": 0})
            if ok:
                self.last_kind = r["do"]
                return self._emit(r)
        return self._emit({"do": "config", "client": client, "contraction": pre.contraction})

    def _propose(self, world, pre, client):
        rng = self.rng
        # perturbations
        if rng.random() < self.perturb_rate:
            r = self._struct(world, pre, client)
            if r:
                r["perturb"] = True
            return r
        # fault placement: base rate, boosted right after measure / merge / level change
        fr = self.fault_rate
        if fr and self.last_kind in ("measure", "povm", "mk_ce", "sub.expand", "env.expand", "ce.expand", "ce.combine"):
            fr = min(0.6, fr * 2.5)
        if fr and rng.random() < fr:
            return self._fault(world, pre, client)
        w = self.prof["w"]
        fams = [k for k in w if w[k] > 0]
        fam = rng.choices(fams, weights=[w[k] for k in fams])[0]
        return getattr(self, "_" + fam)(world, pre, client)

    # ---------------------------------------------------------------- helpers
    def _subs(self, world, pre, client, kinds=None, live=True):
        out = []
        for n in world.sub_names():
            if world.client_of(n) != client:
                continue
            if kinds and world.kind(n) not in kinds:
                continue
            if live and not actions._live(pre, n):
                continue
            out.append(n)
        return out

    def _entry_for(self, world, pre, sub, allow=("state", "env", "ce")):
        rng = self.rng
        opts = []
        if "state" in allow:
            opts.append(("state", {}))
        e = world.env_of(sub)
        if e and "env" in allow and not pre.env[e]["measured"]:
            opts.append(("env", {"env": e}))
        base = sub.split(".")[0]
        h = world.ce_of.get(base)
        if h and "ce" in allow:
            hs = [x for x in world.ces if world.merge_root(x) == world.merge_root(h)]
            opts.append(("ce", {"ce": rng.choice(hs)}))
        pref = [o for o in opts if o[0] == self.entry_bias]
        if pref and rng.random() < 0.6:
            return pref[0]
        return rng.choice(opts)

    def _handles(self, world, client):
        return [h for h in world.ces if world.client_of(h) == client]

    def _class_subs(self, world, pre, h, kinds=None):
        out = []
        for n in world.sub_names():
            if not actions._live(pre, n):
                continue
            if kinds and world.kind(n) not in kinds:
                continue
            if actions._in_class(world, n, h):
                out.append(n)
        return out

    def _merged_dim(self, pre, subs):
        blocks = []
        for n in subs:
            b = pre.block_of(n)
            if b is not None and not any(b is x for x in blocks):
                blocks.append(b)
        D = 1
        members = 0
        all_complex = False  # the merged array is complex as soon as one factor is
        for b in blocks:
            D *= b.D
            members += len(b.members)
            dt = getattr(b.arr, "dtype", None)
            if dt is not None and dt.kind == "c":
                all_complex = True
        # XLA's CPU compile time of the library's 3-operand einsums explodes for REAL dtype:
        # ~190 s for an all-float64 rank-8 contraction (4 members at matrix level); complex blocks
        # compile in 0.1 s up to rank 14
        if members > 7 or (members > 3 and not all_complex):
            return 10**9
        return D

    def _u3(self):
        rng = self.rng
        if rng.random() < 0.35:
            # a coarse grid: the same values turn up again, in other roles and in another keyword order
            grid = [0.0, round(PI / 2, 9), round(PI, 9), round(-PI / 2, 9), round(PI / 4, 9), 1, 0.3]
            vals = [rng.choice(grid) for _ in range(3)]
        else:
            vals = [self.angle(), self.angle(), self.angle()]
        spec = {"t": "P.U3", "phi": vals[0], "theta": vals[1], "omega": vals[2]}
        if rng.random() < 0.4:
            kw = ["phi", "theta", "omega"]
            rng.shuffle(kw)
            spec["kw"] = kw
        return spec

    def _intperm(self, spec):
        # now and then the user operator is a 0/1 permutation matrix, written with an integer dtype
        if self.rng.random() < 0.2:
            spec["u"] = "perm"
            if self.rng.random() < 0.6:
                spec["dtype"] = "int"
        return spec

    def tiny(self):
        # weak couplings: amplitudes from 3e-7 to 3e-2, where "is it pure / is it zero" tolerances live
        return round(self.rng.choice([-1, 1]) * 10 ** self.rng.uniform(-6.5, -1.5), 12)

    def angle(self):
        # boundary values are legal parameters too (identity rotations, exact swaps, sign flips)
        if self.rng.random() < 0.06:
            return self.tiny()
        if self.rng.random() < 0.05:
            return self.rng.choice([-3, -2, -1, 0, 1, 2, 3])  # a Python int, as a user would write phi=1
        if self.rng.random() < 0.15:
            return round(self.rng.choice([0.0, PI / 2, PI, -PI / 2, 2 * PI, PI / 4, -PI, 3 * PI, 4 * PI]), 9)
        return round(self.rng.uniform(-4 * PI, 4 * PI), 6)

    # ---------------------------------------------------------------- families
    def _spec1(self, world, pre, sub):
        rng = self.rng
        k = world.kind(sub)
        nu = rng.random() < self.nonunitary
        if k == "P":
            c = rng.random()
            if nu:
                return {"t": "P.Custom", "u": "contr", "seed": rng.randint(1, 30)}
            if c < 0.35:
                return {"t": "P." + rng.choice(["X", "Y", "Z", "H", "S", "T", "SX", "I"])}
            if c < 0.7:
                return {"t": "P." + rng.choice(["RX", "RY", "RZ"]), "theta": self.angle()}
            if c < 0.88:
                return self._u3()
            return self._intperm({"t": "P.Custom", "u": "haar", "seed": rng.randint(1, 30)})
        if k == "C":
            d = pre.sub[sub]["dims"]
            c = rng.random()
            if nu:
                return {"t": "C.Custom", "d": d, "u": "contr", "seed": rng.randint(1, 30)}
            if c < 0.5:
                return self._intperm({"t": "C.Custom", "d": d, "u": rng.choice(["haar", "haar", "shift"]), "seed": rng.randint(1, 30)})
            form = rng.choice(["expm_herm", "np_leaf", "mmult", "tree", "tree"])
            return {"t": "C.Expr", "d": d, "form": form, "theta": round(rng.uniform(-3, 3), 6), "seed": rng.randint(1, 30 if form != "tree" else 4000)}
        # Fock
        s = actions.support(pre, sub) or 0
        b = pre.block_of(sub)
        c = rng.random()
        if c < 0.3:
            return {"t": "F.PhaseShift", "phi": self.angle()}
        if c < 0.45 and s <= 3:
            return {"t": "F.Creation"}
        if c < 0.58 and s >= 2:
            return {"t": "F.Annihilation"}
        if c < 0.66:
            return {"t": "F.Identity"}
        if c < 0.76:
            return {"t": "F.Expr", "form": rng.choice(["phase", "kerr"]), "theta": self.angle()}
        if c < 0.84 and b is not None and b.D <= 12 and s <= 3:
            d = s + rng.choice([1, 1, 2, 3]) if s >= 1 else rng.choice([2, 3])
            return self._intperm({"t": "F.Custom", "d": max(d, 2), "u": "haar", "seed": rng.randint(1, 30)})
        if b is not None and b.D <= 16 and s <= 2 and not self.prof.get("no_estimator"):
            if rng.random() < 0.6:
                a = rng.choice(ALPHAS)
                return {"t": "F.Displace", "re": a[0], "im": a[1]}
            z = rng.choice(ZETAS)
            return {"t": "F.Squeeze", "re": z[0], "im": z[1]}
        return {"t": "F.PhaseShift", "phi": self.angle()}

    def _reuse_ok(self, spec, pre, sub):
        """Keep Fock cutoffs bounded when pooled operations are applied again and again."""
        t = spec["t"]
        if t in ("F.Displace", "F.Squeeze", "F.Creation") or (t == "F.Expr" and spec.get("form") == "rot"):
            s = actions.support(pre, sub) or 0
            b = pre.block_of(sub)
            lim = 3 if t == "F.Creation" else 2
            return s <= lim and b is not None and b.D <= 16
        if t == "F.Custom":
            s = actions.support(pre, sub) or 0
            return s <= spec["d"]
        return True

    def _op1(self, world, pre, client):
        rng = self.rng
        subs = self._subs(world, pre, client)
        if self.prof.get("fock_bias"):
            f = [s for s in subs if world.kind(s) == "F"]
            if f and rng.random() < 0.7:
                subs = f
        if not subs:
            return None
        sub = rng.choice(subs)
        if self.prof.get("reuse") or rng.random() < 0.5:
            # reuse a pooled operation of the right kind
            cands = [k for k, v in self.ops.items() if k not in self.retired and specs.operand_kinds(v) == [world.kind(sub)] and self._reuse_ok(v, pre, sub)]
            if cands and rng.random() < 0.6:
                name = rng.choice(cands)
                entry, extra = self._entry_for(world, pre, sub)
                return {"do": "op", "entry": entry, "op": name, "on": [sub], **extra}
        spec = self._spec1(world, pre, sub)
        entry, extra = self._entry_for(world, pre, sub)
        return {"do": "op", "entry": entry, "op": self._new_op(spec), "on": [sub], **extra}

    def _opx(self, world, pre, client):
        rng = self.rng
        hs = self._handles(world, client)
        if not hs:
            return self._mk_ce(world, pre, client)
        h = rng.choice(hs)
        P = self._class_subs(world, pre, h, "P")
        F = self._class_subs(world, pre, h, "F")
        Cs = self._class_subs(world, pre, h, "C")
        opts = []
        if len(P) >= 2:
            opts += ["CX", "CX", "CZ", "SWAP", "pp_haar"]
        if len(P) >= 3:
            opts += ["CSWAP", "ppp"]
        if len(F) >= 2:
            opts += ["BS", "BS", "bs_expr", "crosskerr"]
        if len(F) >= 3:
            opts += ["fff_kerr", "fff_kerr"]
        if F and P:
            opts += ["fp_cphase", "pf_cphase"]
        if Cs and P:
            opts += ["cp_ctrl"]
        if self.prof.get("optics"):
            opts = [o for o in opts if o in ("BS", "bs_expr")] * 3 + opts
        if self.prof.get("equal_values"):
            # operands that may hold equal values: Fock spaces, the more the better
            opts = [o for o in opts if o in ("fff_kerr", "BS", "crosskerr", "bs_expr", "fp_cphase", "pf_cphase")] * 2 + opts
        if not opts:
            return None
        # reuse a pooled composite operation on (possibly other) operands of the right kinds
        pooled = [k for k, v in self.ops.items() if v["t"].startswith("X.") and k not in self.retired]
        if pooled and rng.random() < (0.6 if self.prof.get("reuse") else 0.3):
            name = rng.choice(pooled)
            kinds = specs.operand_kinds(self.ops[name])
            by_kind = {"P": list(P), "F": list(F), "C": list(Cs)}
            on = []
            ok = True
            for kd in kinds:
                cand = [x for x in by_kind[kd] if x not in on]
                if self.ops[name].get("d") and kd == "C":
                    cand = [x for x in cand if pre.sub[x]["dims"] == self.ops[name]["d"]]
                if not cand:
                    ok = False
                    break
                on.append(rng.choice(cand))
            if ok:
                tot = sum((actions.support(pre, f) or 1) - 1 for f in on if world.kind(f) == "F")
                if tot <= 4 and self._merged_dim(pre, on) <= 200:
                    return {"do": "op", "entry": "ce", "ce": h, "op": name, "on": on}
        o = rng.choice(opts)
        th = round(rng.uniform(-2 * PI, 2 * PI), 6)
        if rng.random() < 0.15:
            th = round(rng.choice([0.0, PI / 4, PI / 2, PI, -PI / 2, 2 * PI, -PI]), 9)
        elif rng.random() < 0.1:
            th = self.tiny()
        if o in ("CX", "CZ", "SWAP"):
            on = rng.sample(P, 2)
            spec = {"t": "X." + o}
        elif o == "pp_haar":
            on = rng.sample(P, 2)
            spec = {"t": "X.Expr", "form": "pp_haar", "kinds": ["P", "P"], "seed": rng.randint(1, 20)}
        elif o == "CSWAP":
            on = rng.sample(P, 3)
            spec = {"t": "X.CSWAP"}
        elif o == "ppp":
            on = rng.sample(P, 3)
            spec = {"t": "X.Expr", "form": "ppp", "kinds": ["P", "P", "P"], "theta": th}
        elif o in ("BS", "bs_expr", "crosskerr"):
            on = rng.sample(F, 2)
            tot = sum((actions.support(pre, f) or 1) - 1 for f in on)
            if tot > 4:
                return None
            if o == "BS":
                spec = {"t": "X.BS", "eta": th}
            elif o == "bs_expr":
                spec = {"t": "X.Expr", "form": "bs", "kinds": ["F", "F"], "theta": th}
            else:
                spec = {"t": "X.Expr", "form": "crosskerr", "kinds": ["F", "F"], "theta": th}
        elif o == "fff_kerr":
            on = rng.sample(F, 3)
            spec = {"t": "X.Expr", "form": "fff_kerr", "kinds": ["F", "F", "F"], "theta": th}
        elif o == "fp_cphase":
            on = [rng.choice(F), rng.choice(P)]
            spec = {"t": "X.Expr", "form": "fp_cphase", "kinds": ["F", "P"], "theta": th}
        elif o == "pf_cphase":
            on = [rng.choice(P), rng.choice(F)]
            spec = {"t": "X.Expr", "form": "pf_cphase", "kinds": ["P", "F"], "theta": th}
        else:
            s = rng.choice(Cs)
            on = [s, rng.choice(P)]
            spec = {"t": "X.Expr", "form": "cp_ctrl", "kinds": ["C", "P"], "d": pre.sub[s]["dims"], "theta": th}
        if self._merged_dim(pre, on) > 200:
            return None
        return {"do": "op", "entry": "ce", "ce": h, "op": self._new_op(spec), "on": on}

    def _chan(self, dims):
        rng = self.rng
        if len(dims) == 1:
            d = dims[0]
            fams = ["dilation", "dilation", "ampdamp", "unitary", "perm", "jump"]
            if d == 2:
                fams += ["bitflip", "phaseflip", "depol", "depol"]
            f = rng.choice(fams)
            if f == "dilation":
                return {"family": "dilation", "n": rng.choice([2, 2, 3, 4]), "seed": rng.randint(1, 40)}
            if f in ("unitary", "perm"):
                return {"family": f, "seed": rng.randint(1, 40)}
            if f == "jump":
                return {"family": "jump"}
            if f == "ampdamp":
                return {"family": "ampdamp", "g": round(rng.uniform(0.05, 0.95), 4)}
            return {"family": f, "p": round(10 ** rng.uniform(-7, -0.3), 12) if rng.random() < 0.3 else round(rng.uniform(0.05, 0.95), 4)}
        if rng.random() < 0.6:
            return {"family": "dilation", "n": rng.choice([2, 3]), "seed": rng.randint(1, 40)}
        return {"family": "prod", "parts": [self._chan([d]) for d in dims]}

    def _targets_multi(self, world, pre, client, maxn):
        rng = self.rng
        subs = self._subs(world, pre, client)
        if not subs:
            return None
        sub = rng.choice(subs)
        entry, extra = self._entry_for(world, pre, sub)
        on = [sub]
        if entry == "env" and rng.random() < 0.4:
            p = world.partner(sub)
            if actions._live(pre, p):
                on.append(p)
                rng.shuffle(on)
        elif entry == "ce" and rng.random() < 0.5:
            cand = [n for n in self._class_subs(world, pre, extra["ce"]) if n != sub]
            rng.shuffle(cand)
            on += cand[: rng.randint(1, maxn - 1)]
            rng.shuffle(on)
        return entry, extra, on

    def _kraus(self, world, pre, client):
        t = self._targets_multi(world, pre, client, 3)
        if not t:
            return None
        entry, extra, on = t
        dims = [pre.sub[n]["dims"] for n in on]
        if any(d <= 0 for d in dims) or int(np.prod(dims)) > 24 or self._merged_dim(pre, on) > 160:
            return None
        r = {"do": "kraus", "entry": entry, "ch": self._chan(dims), "on": on, "arr": self.rng.choice(["jnp", "jnp", "np", "real", "int", "npint", "mixed", "npmixed"]), **extra}
        if entry in ("state", "ce") and self.rng.random() < 0.2:
            r["idc"] = False  # identity_check=False: the (complete) set must be applied all the same
        if entry == "state" and self.rng.random() < 0.25:
            r["style"] = "pos"
        if self.rng.random() < 0.15:
            r["flagtype"] = "np"
        if r["arr"] == "np" and self.fault_rate and self.rng.random() < 0.35:
            # right afterwards the caller changes those arrays in place and hands them in again
            f = {"do": "fault", "kind": "kraus_not_tp", "how": "inplace", "on": list(on), "entry": entry, "client": client, **extra}
            self.queue.append(self._emit(f))
        return r

    def _mset(self, dims):
        rng = self.rng
        if len(dims) == 1:
            d = dims[0]
            fams = ["dilation", "dilation", "proj", "basis", "jump"]
            if d == 2:
                fams += ["unsharp", "unsharp"]
            f = rng.choice(fams)
            if f == "dilation":
                return {"family": "dilation", "n": rng.choice([2, 3]), "seed": rng.randint(1, 40)}
            if f == "proj":
                return {"family": "proj", "seed": rng.randint(1, 40)}
            if f in ("basis", "jump"):
                return {"family": f}
            return {"family": "unsharp", "eta": round(rng.uniform(0.1, 0.95), 4)}
        if rng.random() < 0.6:
            return {"family": "dilation", "n": rng.choice([2, 3]), "seed": rng.randint(1, 40)}
        return {"family": "prod", "parts": [self._mset([d]) for d in dims]}

    def _povm(self, world, pre, client):
        t = self._targets_multi(world, pre, client, 2)
        if not t:
            return None
        entry, extra, on = t
        dims = [pre.sub[n]["dims"] for n in on]
        if any(d <= 0 for d in dims) or int(np.prod(dims)) > 16 or self._merged_dim(pre, on) > 160:
            return None
        r = {"do": "povm", "entry": entry, "m": self._mset(dims), "on": on, "destr": self.rng.random() < 0.5, "arr": self.rng.choice(["jnp", "jnp", "np", "real", "int", "npint", "mixed", "npmixed"]), **extra}
        if entry == "state":
            r["partial"] = self.rng.random() < 0.5
        r["style"] = self.rng.choice(["kw", "min", "min", "pos"])
        if self.rng.random() < 0.2:
            r["flagtype"] = "np"
        return r

    def _measure(self, world, pre, client):
        rng = self.rng
        subs = self._subs(world, pre, client)
        if not subs:
            return None
        sub = rng.choice(subs)
        entry, extra = self._entry_for(world, pre, sub)
        sep = rng.random() < 0.4
        destr = rng.random() < 0.6
        if entry == "env":
            e = extra["env"]
            c = rng.random()
            if c < 0.35:
                on = []
                sep = False
            elif c < 0.75:
                on = [sub]
            else:
                on = [e + ".f", e + ".p"]
                rng.shuffle(on)
                sep = False
            return {"do": "measure", "entry": "env", "env": e, "on": on, "sep": sep, "destr": destr, "style": rng.choice(["kw", "min"]), **({"flagtype": "np"} if rng.random() < 0.2 else {})}
        on = [sub]
        if entry == "ce" and rng.random() < 0.5:
            cand = [n for n in self._class_subs(world, pre, extra["ce"]) if n != sub]
            rng.shuffle(cand)
            on += cand[: rng.randint(1, 2)]
        return {"do": "measure", "entry": entry, "on": on, "sep": sep, "destr": destr, "style": rng.choice(["kw", "min", "min", "pos"]), **({"flagtype": "np"} if rng.random() < 0.2 else {}), **extra}

    def _struct(self, world, pre, client):
        rng = self.rng
        envs = [e for e in self.client_envs.get(client, []) if e in world.envs and not pre.env[e]["measured"]]
        subs = self._subs(world, pre, client)
        hs = self._handles(world, client)
        kinds = ["env.combine", "env.reorder", "env.expand", "env.contract", "sub.expand", "sub.expand", "sub.contract", "ce.combine", "ce.combine", "ce.reorder", "ce.expand", "ps.contract"]
        if self.prof.get("struct_bias") == "level":
            kinds += ["sub.expand", "sub.contract", "env.expand", "env.contract", "ce.expand", "ps.contract"] * 2
        k = rng.choice(kinds)
        # the tolerance of an explicit contraction is the caller's choice
        tolkw = {"tol": rng.choice([1e-6, 1e-5, 1e-4, 1e-3])} if k.endswith(".contract") and rng.random() < 0.4 else {}
        if k == "ps.contract":
            inps = [n for n in subs if pre.block_of(n) is not None and pre.block_of(n).kind == "ps" and world.ce_of.get(n.split(".")[0])]
            if not inps:
                return None
            n = rng.choice(inps)
            return {"do": k, "sub": n, "ce": world.ce_of[n.split(".")[0]], **tolkw}
        if k.startswith("env."):
            if not envs:
                return None
            e = rng.choice(envs)
            r = {"do": k, "env": e, **tolkw}
            if k == "env.reorder":
                on = [e + ".f", e + ".p"]
                rng.shuffle(on)
                r["on"] = on[: rng.choice([1, 2])]
            return r
        if k.startswith("sub."):
            if not subs:
                return None
            return {"do": k, "sub": rng.choice(subs), **tolkw}
        if not hs:
            return None
        h = rng.choice(hs)
        cand = self._class_subs(world, pre, h)
        if not cand:
            return None
        rng.shuffle(cand)
        n = rng.randint(1, min(4, len(cand)))
        on = cand[:n]
        if k == "ce.combine" and rng.random() < 0.25:
            # the two members of one envelope (possibly already combined)
            f = [x for x in cand if world.partner(x) in cand]
            if f:
                on = [f[0], world.partner(f[0])]
        if self._merged_dim(pre, on) > 200:
            return None
        return {"do": k, "ce": h, "on": on}

    def _trace_out(self, world, pre, client):
        rng = self.rng
        subs = self._subs(world, pre, client)
        if not subs:
            return None
        sub = rng.choice(subs)
        b0 = pre.block_of(sub)
        if b0 is not None and b0.kind == "ps" and len(b0.members) >= 2 and world.ce_of.get(sub.split(".")[0]) and rng.random() < 0.3:
            mem = [m for m in b0.members]
            k = rng.randint(1, min(3, len(mem) - 1))
            on = sorted(rng.sample(mem, k), key=mem.index)
            return {"do": "trace_out", "entry": "ps", "ce": world.ce_of[sub.split(".")[0]], "on": on}
        entry, extra = self._entry_for(world, pre, sub)
        on = [sub]
        if entry == "env" and rng.random() < 0.4 and actions._live(pre, world.partner(sub)):
            on.append(world.partner(sub))
            rng.shuffle(on)
        if entry == "ce":
            cand = [n for n in self._class_subs(world, pre, extra["ce"]) if n != sub and pre.block_of(n).kind == "ps"]
            rng.shuffle(cand)
            if rng.random() < 0.5:
                # prefer operands held in OTHER product spaces (forces a merge; bystander spaces must stay)
                other = [n for n in cand if pre.block_of(n) is not pre.block_of(sub)]
                cand = other + [n for n in cand if n not in other]
            on += cand[: rng.randint(0, 2)]
            rng.shuffle(on)
        if self._merged_dim(pre, on) > 200:
            return None
        return {"do": "trace_out", "entry": entry, "on": on, **extra}

    def _resize(self, world, pre, client):
        rng = self.rng
        F = self._subs(world, pre, client, "F")
        if not F:
            return None
        f = rng.choice(F)
        entry, extra = self._entry_for(world, pre, f)
        s = actions.support(pre, f) or 1
        d = pre.sub[f]["dims"]
        cands = {s, s + 1, s + 2}
        if d > 0:
            cands |= {d - 1, d, d + 1, d + 3}
        cands = [c for c in cands if c >= s and 1 <= c <= 12]
        if not cands:
            return None
        return {"do": "resize", "entry": entry, "sub": f, "new": rng.choice(sorted(cands)), **extra}

    def _mk_ce(self, world, pre, client):
        rng = self.rng
        envs = [e for e in self.client_envs.get(client, []) if e in world.envs and not pre.env[e]["measured"]]
        cs = [c for c in self.client_customs.get(client, []) if c in world.customs]
        hs = self._handles(world, client)
        pool = envs + cs + hs + hs
        if rng.random() < 0.25 and len(world.envs) < 7:
            # a fresh envelope joins
            self.queue.append(self._emit(self._new_env(client)))
            return None
        if not pool:
            return None
        k = rng.randint(1, min(3, len(pool)))
        of = []
        for _ in range(k):
            x = rng.choice(pool)
            if x not in of:
                of.append(x)
        if rng.random() < 0.2:
            of.append(rng.choice(of))  # the same member named twice (a closed path a, b, c, a)
        return self._new_ce(client, of)

    def _config(self, world, pre, client):
        rng = self.rng
        if rng.random() < 0.8:
            return {"do": "config", "contraction": not pre.contraction}
        return {"do": "config", "seed": rng.randint(0, 10**6)}

    def _mk_op(self, world, pre, client):
        rng = self.rng
        scan = [n for n, (o, sp) in world.ops.items() if sp.get("t") in ("P.RX", "P.RY", "P.RZ", "P.U3", "F.PhaseShift", "F.Displace", "F.Squeeze", "X.BS") and n in self.ops and n not in self.retired]
        if scan and rng.random() < 0.45:
            # parameter scan: the same Operation object with another value
            name = rng.choice(sorted(scan))
            spec = dict(self.ops[name])
            if spec["t"] in ("F.Displace", "F.Squeeze"):
                v = rng.choice(ALPHAS if spec["t"] == "F.Displace" else ZETAS)
                spec["re"], spec["im"] = v
            else:
                k = rng.choice([k for k in ("theta", "phi", "omega", "eta") if k in spec])
                spec[k] = self.angle()
            if spec == self.ops[name]:
                return None
            self.retired.add(name)  # the object is known under the new name from here on
            new = f"op{self.next_op}"  # always a new name: the pool may hold an equal spec for ANOTHER object
            self.next_op += 1
            self.ops[new] = spec
            return {"do": "mut_op", "op": name, "as": new}
        c = rng.random()
        if c < 0.5:
            kinds = rng.choice([["F", "F"], ["F", "P"], ["P", "F"], ["P", "P"]])
            form = {"FF": rng.choice(["bs", "crosskerr"]), "FP": "fp_cphase", "PF": "pf_cphase", "PP": "pp_haar"}["".join(kinds)]
            spec = {"t": "X.Expr", "form": form, "kinds": kinds, "theta": round(rng.uniform(-3, 3), 6)}
            if form == "pp_haar":
                spec = {"t": "X.Expr", "form": form, "kinds": kinds, "seed": rng.randint(1, 20)}
        elif c < 0.7:
            spec = {"t": "X." + rng.choice(["CX", "CZ", "SWAP", "CSWAP"])}
        else:
            spec = {"t": "P." + rng.choice(["RX", "RY", "RZ"]), "theta": self.angle()}
        name = self._new_op(spec)
        return {"do": "mk_op", "op": name}

    # ---------------------------------------------------------------- faults
    def _fault(self, world, pre, client):
        rng = self.rng
        kinds = self.prof.get("faults") or list(actions.FAULT_KINDS)
        for _ in range(6):
            k = rng.choice(kinds)
            r = self._fault_of_kind(world, pre, client, k)
            if r is not None:
                return r
        return None

    def _fault_of_kind(self, world, pre, client, k):
        rng = self.rng
        subs = self._subs(world, pre, client)
        if k == "missing_param":
            return {"do": "fault", "kind": k}
        if k == "use_destroyed":
            dead = [n for n in world.sub_names() if world.client_of(n) == client and pre.sub[n]["measured"]]
            if not dead:
                return None
            n = rng.choice(dead)
            how = rng.choice(["op", "kraus", "measure", "povm", "combine", "op2", "measure2", "measure2"])
            opts = ["state", "env"]
            base = n.split(".")[0]
            h = world.ce_of.get(base)
            if h:
                opts.append("ce")
            entry = rng.choice(opts)
            r = {"do": "fault", "kind": k, "how": how, "on": [n], "entry": entry}
            if entry == "env":
                r["env"] = world.env_of(n)
            if entry == "ce" or how == "op2":
                if not h:
                    return None
                r["entry"] = "ce"
                r["ce"] = h
            if how == "op2":
                cand = [x for x in self._class_subs(world, pre, h, world.kind(n))]
                if not cand:
                    return None
                r["on"] = [n, rng.choice(cand)]
            if how == "measure2":
                if not h:
                    return None
                cand = [x for x in self._class_subs(world, pre, h) if x != n]
                if not cand:
                    return None
                r["entry"] = "ce"
                r["ce"] = h
                r["on"] = [n, rng.choice(cand)]
            if how == "combine" and entry == "state":
                r["entry"] = "env"
                r["env"] = world.env_of(n)
            return r
        if not subs:
            return None
        sub = rng.choice(subs)
        if k in ("kraus_not_tp", "kraus_wrong_shape", "povm_wrong_shape"):
            entry, extra = self._entry_for(world, pre, sub)
            on = [sub]
            if entry == "env" and rng.random() < 0.3 and actions._live(pre, world.partner(sub)):
                on.append(world.partner(sub))
            if entry == "ce" and rng.random() < 0.5:
                # a second operand, preferably held somewhere else (a refused request joins nothing)
                cand = [n for n in self._class_subs(world, pre, extra["ce"]) if n != sub and pre.sub[n]["dims"] > 0]
                far = [n for n in cand if pre.block_of(n) is not pre.block_of(sub)]
                pick = far or cand
                if pick:
                    o = rng.choice(pick)
                    if pre.sub[sub]["dims"] > 0 and pre.sub[sub]["dims"] * pre.sub[o]["dims"] <= 32:
                        on.append(o)
                        rng.shuffle(on)
            r = {"do": "fault", "kind": k, "on": on, "entry": entry, "seed": rng.randint(1, 20), **extra}
            if k == "kraus_not_tp":
                r["how"] = rng.choice(["scale", "drop", "imag", "offdiag", "diag1"])
                if r["how"] not in ("scale", "drop"):
                    r["eps"] = rng.choice([0.3, 0.3, 1e-2, 1e-4])
                    r["single"] = rng.random() < 0.5
            else:
                r["delta"] = rng.choice([1, 1, -1])
                r["shape"] = rng.choice(["square", "square", "tall", "wide", "mixed", "vector", "empty"])
            return r
        if k == "custom_op_wrong_shape":
            cand = [s for s in subs if world.kind(s) in ("P", "C")]
            if not cand:
                return None
            sub = rng.choice(cand)
            entry, extra = self._entry_for(world, pre, sub)
            return {"do": "fault", "kind": k, "on": [sub], "entry": entry, **extra}
        if k == "wrong_kind":
            if rng.random() < 0.6:
                cand = [s for s in subs if world.kind(s) in ("P", "F")]
                if not cand:
                    return None
                sub = rng.choice(cand)
                entry, extra = self._entry_for(world, pre, sub)
                return {"do": "fault", "kind": k, "how": "single", "on": [sub], "entry": entry, **extra}
            hs = self._handles(world, client)
            if not hs:
                return None
            h = rng.choice(hs)
            cand = self._class_subs(world, pre, h)
            if len(cand) < 2:
                return None
            on = rng.sample(cand, 2)
            return {"do": "fault", "kind": k, "how": "composite", "on": on, "entry": "ce", "ce": h}
        if k == "outside_container":
            how = rng.choice(["env.kraus", "env.povm", "env.reorder", "ce.op2", "ce.resize"])
            if how.startswith("env."):
                envs = [e for e in world.envs if world.client_of(e) == client and not pre.env[e]["measured"]]
                others = [s for s in subs if world.kind(s) in ("F", "P")]
                if not envs or not others:
                    return None
                e = rng.choice(envs)
                o = [s for s in others if world.env_of(s) != e]
                if not o:
                    return None
                return {"do": "fault", "kind": k, "how": how, "on": [rng.choice(o)], "entry": "env", "env": e}
            hs = self._handles(world, client)
            if not hs:
                return None
            h = rng.choice(hs)
            inside = self._class_subs(world, pre, h, "P")
            outside = [s for s in subs if not actions._in_class(world, s, h)]
            if how == "ce.op2":
                o = [s for s in outside if world.kind(s) == "P"]
                if not inside or not o:
                    return None
                return {"do": "fault", "kind": k, "how": how, "on": [rng.choice(inside), rng.choice(o)], "entry": "ce", "ce": h}
            o = [s for s in outside if world.kind(s) == "F"]
            if not o:
                return None
            return {"do": "fault", "kind": k, "how": how, "on": [rng.choice(o)], "entry": "ce", "ce": h}
        if k == "annihilate_vacuum":
            cand = [s for s in subs if world.kind(s) == "F" and (actions.support(pre, s) or 9) <= 1]
            if not cand:
                return None
            sub = rng.choice(cand)
            entry, extra = self._entry_for(world, pre, sub)
            return {"do": "fault", "kind": k, "how": rng.choice(["builtin", "custom"]), "on": [sub], "entry": entry, **extra}
        if k == "shrink_below_support":
            cand = [s for s in subs if world.kind(s) == "F" and (actions.support(pre, s) or 0) >= 2 and pre.sub[s]["dims"] > 0]
            if not cand:
                return None
            sub = rng.choice(cand)
            entry, extra = self._entry_for(world, pre, sub)
            return {"do": "fault", "kind": k, "on": [sub], "entry": entry, "below": rng.choice([0, 0, 1]), **extra}
        return None


SCENARIOS = ["bell", "ghz", "bs2", "mz", "envcomb", "two_ps", "merged", "mixed_custom", "cancel", "weaknoise", "recombine", "equalmeasure", "lopsided", "paulinoise", "envsep", "twinprep"]
