"""
Known findings: committed list of genuine defects that are recorded rather than repaired
(/verif/known_findings.json), each with an explicit-wildcard pattern over the violation cell
and a replay file that must still fail for the entry to be live.

Pattern semantics (no implicit wildcard): a pattern matches a violation iff for EVERY field of
the violation's cell the pattern has an entry and that entry accepts the value:
    "*"                      any value
    exact JSON value         equality
    {"in": [v1, v2, ...]}    membership
    {"any": v}               (list-valued field) some element equals v / is in v if v is a list
    {"all_in": [..]}         (list-valued field) every element is in the list
    {"prefix": "abc"}        string starts with
A pattern that forgets a field therefore matches nothing.
"""

from __future__ import annotations

import json
import os

from sim.env import VERIF_DIR

PATH = os.path.join(VERIF_DIR, "known_findings.json")


def load():
    if not os.path.exists(PATH):
        return {"findings": [], "fixed": []}
    with open(PATH) as f:
        return json.load(f)


def _accept(pat, val):
    if pat == "*":
        return True
    if isinstance(pat, dict):
        if "in" in pat:
            return val in pat["in"] or (isinstance(val, list) and tuple(val) in [tuple(x) if isinstance(x, list) else x for x in pat["in"]])
        if "any" in pat:
            want = pat["any"]
            if not isinstance(val, (list, tuple)):
                return False
            if isinstance(want, list):
                return any(x in want for x in val)
            return any(x == want for x in val)
        if "all_in" in pat:
            if not isinstance(val, (list, tuple)):
                return False
            return all(x in pat["all_in"] for x in val)
        if "prefix" in pat:
            return isinstance(val, str) and val.startswith(pat["prefix"])
        return False
    if isinstance(val, tuple):
        val = list(val)
    return pat == val


def matches(pattern, cell):
    for k, v in cell.items():
        if k not in pattern:
            return False
        if not _accept(pattern[k], v):
            return False
    return True


def classify(violation_json, prop, live_entries):
    """Return the id of the live known finding explaining this violation, or None."""
    cell = violation_json["cell"]
    for e in live_entries:
        if e["property"] != prop and prop not in e.get("also", []):
            continue
        if matches(e["pattern"], cell):
            return e["id"]
    return None
