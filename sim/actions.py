"""
Actions: recipes (JSON-able dicts) resolved against the current world and executed through
the public API of photon_weave only.

``applicable(world, pre, r)``  -> (bool, reason): is recipe r a well-formed request now?
``execute(world, pre, r)``     -> ExecResult

A recipe that is not applicable (target destroyed by an earlier step, operator set that does
not fit the current dimension, ...) is *skipped deterministically*: that is what makes
recorded op lists shrinkable.
"""

from __future__ import annotations

import numpy as np

from sim import refmodel as R
from sim import specs
from sim.alpha import _digest


class ExecResult:
    __slots__ = ("status", "exc", "msg", "ret", "addressed", "info", "draws")

    def __init__(self, status, exc=None, msg=None, ret=None, addressed=(), info=None):
        self.status = status
        self.exc = exc
        self.msg = msg
        self.ret = ret
        self.addressed = list(addressed)
        self.info = info or {}
        self.draws = []


FAULT_KINDS = (
    "kraus_not_tp",
    "kraus_wrong_shape",
    "povm_wrong_shape",
    "custom_op_wrong_shape",
    "wrong_kind",
    "outside_container",
    "annihilate_vacuum",
    "shrink_below_support",
    "use_destroyed",
    "missing_param",
)


# ------------------------------------------------------------------------------------------
# helpers
# ------------------------------------------------------------------------------------------
def _live(pre, name):
    m = pre.sub.get(name)
    return m is not None and not m["measured"] and name in pre.where


def _exists(pre, name):
    return name in pre.sub


def _in_class(world, sub, ce):
    base = sub.split(".")[0]
    root = world.ce_of.get(base)
    return root is not None and ce in world.ces and world.merge_root(root) == world.merge_root(ce)


def _dims_of(pre, names):
    return [pre.sub[n]["dims"] for n in names]


def _reduced(pre, names):
    """Reference reduced state of the named live subsystems (in the order given)."""
    from sim import alpha

    blocks = []
    for n in names:
        b = pre.block_of(n)
        if b is None:
            return None, None
        if not any(b is x for x in blocks):
            blocks.append(b)
    rho, order, dims = alpha.joint(blocks, None)
    if rho is None:
        return None, None
    keep = [order.index(n) for n in names]
    return R.ptrace_keep(rho, dims, keep)


def support(pre, fock):
    """Highest occupied level + 1 of a Fock subsystem (reference), or None."""
    r, d = _reduced(pre, [fock])
    if r is None:
        return None
    dg = np.real(np.diag(r))
    nz = np.where(dg > 1e-12)[0]
    return int(nz[-1]) + 1 if len(nz) else 0


def support_exact(pre, fock):
    """As `support`, but every level that holds anything at all counts (rounding dust included):
    the library sizes a Fock space by exact non-zero tests, which is the conservative reading of C10."""
    r, d = _reduced(pre, [fock])
    if r is None:
        return None
    a = np.abs(np.asarray(r)) != 0
    nz = np.where(a.any(axis=0) | a.any(axis=1))[0]
    return int(nz[-1]) + 1 if len(nz) else 0


def get_op(world, r):
    """Return (Operation, spec); constructs it on demand (and records user arrays)."""
    name = r["op"]
    if name in world.ops and not getattr(world, "fresh_ops", False):
        return world.ops[name]
    spec = r.get("spec") or world.op_specs.get(name)
    if spec is None:
        return None, None
    op, user = specs.build_library_operation(spec)
    world.ops[name] = (op, spec)
    for a in user:
        world.user_arrays.append((name, a, _digest(a)))
    return op, spec


def op_spec(world, r):
    name = r["op"]
    if name in world.ops:
        return world.ops[name][1]
    return r.get("spec") or world.op_specs.get(name)


def specified_set(world, pre, r):
    """Subsystems a measure call is specified to measure (DESIGN 11.3)."""
    entry = r["entry"]
    on = list(r.get("on", []))
    sep = bool(r.get("sep", False))
    out = []

    def add(n):
        if n not in out and _live(pre, n):
            out.append(n)

    if entry == "state":
        add(on[0])
        if not sep and world.partner(on[0]):
            add(world.partner(on[0]))
    elif entry == "env":
        e = r["env"]
        if len(on) == 1 and sep:
            add(on[0])
        else:
            add(e + ".f")
            add(e + ".p")
    else:
        for n in on:
            add(n)
        if not sep:
            for n in on:
                p = world.partner(n)
                if p:
                    add(p)
    return out


# ------------------------------------------------------------------------------------------
# applicability
# ------------------------------------------------------------------------------------------
def applicable(world, pre, r):
    do = r["do"]
    try:
        return _applicable(world, pre, r, do)
    except KeyError as e:
        return False, f"missing:{e}"


def _targets_ok(world, pre, r, on, entry, maxn):
    if len(on) < 1 or len(on) > maxn or len(set(on)) != len(on):
        return False, "targets"
    for n in on:
        if not _exists(pre, n):
            return False, "no-such-target"
        if not _live(pre, n):
            return False, "target-not-live"
    if entry == "state":
        if len(on) != 1:
            return False, "state-entry-needs-one"
    elif entry == "env":
        e = r["env"]
        if e not in world.envs:
            return False, "no-such-env"
        if any(world.env_of(n) != e for n in on):
            return False, "not-member"
        if pre.env[e]["measured"]:
            return False, "envelope-flagged-measured"
    elif entry == "ce":
        ce = r["ce"]
        if ce not in world.ces:
            return False, "no-such-ce"
        if any(not _in_class(world, n, ce) for n in on):
            return False, "not-in-composite"
    else:
        return False, "entry"
    return True, ""


def _applicable(world, pre, r, do):
    if do == "mk_env":
        return (r["name"] not in world.envs), "exists"
    if do == "mk_custom":
        return (r["name"] not in world.customs), "exists"
    if do == "mk_op":
        return (r["op"] not in world.ops), "exists"
    if do == "mut_op":
        return (r["op"] in world.ops and r["as"] not in world.ops and r["as"] in world.op_specs), "pool"
    if do == "mk_ce":
        if r["name"] in world.ces:
            return False, "exists"
        cl = set()
        for n in r["of"]:
            if n in world.envs:
                if pre.env[n]["measured"]:
                    return False, "envelope-measured"
            elif n in world.customs:
                if world.ce_of.get(n) is not None:
                    return False, "custom-state-already-in-a-composite"
            elif n in world.ces:
                pass
            else:
                return False, "no-such-object"
            cl.add(world.client_of(n))
        if len(cl) > 1 or (cl and cl != {r["client"]}):
            return False, "foreign-object"
        return True, ""
    if do == "config":
        return True, ""
    if do == "op":
        spec = op_spec(world, r)
        if spec is None:
            return False, "no-op"
        kinds = specs.operand_kinds(spec)
        on = r["on"]
        ok, why = _targets_ok(world, pre, r, on, r["entry"], 3)
        if not ok:
            return ok, why
        if [world.kind(n) for n in on] != kinds:
            return False, "kinds"
        if len(kinds) > 1 and r["entry"] != "ce":
            return False, "composite-needs-ce"
        if spec["t"] in ("C.Custom", "C.Expr") or (spec["t"] == "X.Expr" and "d" in spec):
            cs = [n for n in on if world.kind(n) == "C"]
            if cs and pre.sub[cs[0]]["dims"] != spec["d"]:
                return False, "custom-dims"
        if spec["t"] == "F.Custom":
            # a user operator smaller than the current cut-off fits only if the levels beyond it hold
            # exactly nothing: with rounding dust there the library keeps the cut-off (C10) and the
            # request is not a valid one
            s = support_exact(pre, on[0]) if pre.sub[on[0]]["dims"] > spec["d"] else support(pre, on[0])
            if s is None or s > spec["d"]:
                return False, "custom-too-small"
        if not specs.is_unitary_spec(spec):
            # result must be non-zero (otherwise it is the annihilate_vacuum fault)
            p = op_success_probability(world, pre, spec, on)
            if p is None or p < 1e-9:
                return False, "zero-result"
        return True, ""
    if do == "kraus":
        on = r["on"]
        ok, why = _targets_ok(world, pre, r, on, r["entry"], 3)
        if not ok:
            return ok, why
        if r["entry"] == "env" and len(on) > 2:
            return False, "targets"
        dims = _dims_of(pre, on)
        if any(d <= 0 for d in dims):
            return False, "dims-unset"
        if not specs.set_applicable(r["ch"], dims):
            return False, "set-does-not-fit"
        return True, ""
    if do == "povm":
        on = r["on"]
        ok, why = _targets_ok(world, pre, r, on, r["entry"], 2)
        if not ok:
            return ok, why
        dims = _dims_of(pre, on)
        if any(d <= 0 for d in dims):
            return False, "dims-unset"
        if not specs.set_applicable(r["m"], dims):
            return False, "set-does-not-fit"
        return True, ""
    if do == "measure":
        entry = r["entry"]
        on = r.get("on", [])
        if entry == "env":
            e = r["env"]
            if e not in world.envs or pre.env[e]["measured"]:
                return False, "envelope"
            if not (_live(pre, e + ".f") and _live(pre, e + ".p")):
                return False, "member-not-live"
            if any(world.env_of(n) != e for n in on) or len(on) > 2 or len(set(on)) != len(on):
                return False, "targets"
            if r.get("sep") and len(on) != 1:
                return False, "sep-needs-one"
            return True, ""
        ok, why = _targets_ok(world, pre, r, on, entry, 4)
        if not ok:
            return ok, why
        # partners that would be measured implicitly must be alive or already retired
        return True, ""
    if do in ("env.combine", "env.reorder", "env.expand", "env.contract"):
        e = r["env"]
        if e not in world.envs or pre.env[e]["measured"]:
            return False, "envelope"
        f, p = e + ".f", e + ".p"
        if not (_live(pre, f) and _live(pre, p)):
            return False, "member-not-live"
        sf, sp = pre.block_of(f), pre.block_of(p)
        if do == "env.combine":
            if not (sf.kind == "own" and sp.kind == "own"):
                return False, "not-uncombined"
        if do == "env.reorder":
            on = r["on"]
            if not (1 <= len(on) <= 2) or any(world.env_of(n) != e for n in on) or len(set(on)) != len(on):
                return False, "targets"
            if sf.kind == "ps" or sp.kind == "ps":
                return False, "in-product-space"
        if do == "env.contract":
            if not (sf.kind == "env" and sf.form == "matrix"):
                return False, "not-matrix-envelope"
        return True, ""
    if do in ("sub.expand", "sub.contract"):
        n = r["sub"]
        if not _exists(pre, n) or not _live(pre, n):
            return False, "target-not-live"
        b = pre.block_of(n)
        if do == "sub.contract" and b.kind != "own" and world.kind(n) != "P":
            return False, "contract-not-own"
        if do == "sub.contract" and b.kind == "env" and b.form != "matrix":
            return False, "not-matrix-envelope"
        if do == "sub.expand" and b.form == "matrix":
            return False, "already-matrix"
        return True, ""
    if do == "ps.contract":
        n = r["sub"]
        if not _exists(pre, n) or not _live(pre, n):
            return False, "target-not-live"
        b = pre.block_of(n)
        if b is None or b.kind != "ps" or r.get("ce") not in world.ces or not _in_class(world, n, r["ce"]):
            return False, "not-in-product-space"
        return True, ""
    if do in ("ce.combine", "ce.reorder", "ce.expand"):
        on = r["on"]
        ok, why = _targets_ok(world, pre, {**r, "entry": "ce"}, on, "ce", 6)
        if not ok:
            return ok, why
        return True, ""
    if do == "trace_out" and r["entry"] == "ps":
        # the partial trace asked of the product-space object itself (ce.product_states[i].trace_out):
        # members of ONE product space, named in its storage order, not necessarily the leading ones
        on = r["on"]
        if not on or len(set(on)) != len(on) or r.get("ce") not in world.ces:
            return False, "targets"
        if not all(_exists(pre, n) and _live(pre, n) and _in_class(world, n, r["ce"]) for n in on):
            return False, "target-not-live"
        b = pre.block_of(on[0])
        if b is None or b.kind != "ps" or any(pre.block_of(n) is not b for n in on):
            return False, "not-one-product-space"
        pos = [list(b.members).index(n) for n in on]
        return (pos == sorted(pos)), "storage-order"
    if do == "trace_out":
        on = r["on"]
        entry = r["entry"]
        ok, why = _targets_ok(world, pre, r, on, entry, 3)
        if not ok:
            return ok, why
        if entry == "env" and len(on) > 2:
            return False, "targets"
        if entry == "ce" and not any(pre.block_of(n).kind == "ps" for n in on):
            return False, "no-product-space"
        if entry == "env":
            # an envelope whose members sit in a composite product space delegates to it
            e = r["env"]
            kinds = {pre.block_of(e + s).kind for s in (".f", ".p") if _live(pre, e + s)}
            if world.ce_of.get(e) is not None and "ps" not in kinds and pre.block_of(on[0]).kind != "own":
                pass
        return True, ""
    if do == "resize":
        n = r["sub"]
        if world.kind(n) != "F" or not _exists(pre, n) or not _live(pre, n):
            return False, "target"
        if r["new"] < 1:
            return False, "new<1"
        if r["entry"] == "env" and pre.env[world.env_of(n)]["measured"]:
            return False, "envelope-flagged-measured"
        if r["entry"] == "ce" and not _in_class(world, n, r["ce"]):
            return False, "not-in-composite"
        s = support(pre, n)
        if s is None:
            return False, "no-reference"
        if r["new"] < s:
            return False, "below-support(fault)"
        return True, ""
    if do == "fault":
        return fault_applicable(world, pre, r)
    return False, "unknown-action"


def op_success_probability(world, pre, spec, on):
    """tr(O rho O^dagger) for non-unitary operators, at the dimensions the library would use."""
    r, dims = _reduced(pre, on)
    if r is None:
        return None
    t = spec["t"]
    if t in ("F.Creation", "F.Annihilation"):
        s = support(pre, on[0])
        nd = [max(s + 1, 2)]
        r, _ = R.pad_rho(r, dims, nd)
        dims = nd
    try:
        O = specs.ref_operator(spec, dims)
    except Exception:
        return None
    if O.shape[0] != r.shape[0]:
        return None
    return float(np.real(np.trace(O @ r @ O.conj().T)))


# ------------------------------------------------------------------------------------------
# execution
# ------------------------------------------------------------------------------------------
def execute(world, pre, r):
    ok, why = applicable(world, pre, r)
    if not ok:
        return ExecResult("skipped", msg=why)
    do = r["do"]
    try:
        return _execute(world, pre, r, do)
    except Exception as e:  # the library raised
        res = ExecResult("raised", exc=type(e).__name__, msg=str(e)[:300])
        res.addressed = addressed_of(world, pre, r)
        return res


def addressed_of(world, pre, r):
    do = r["do"]
    if do in ("op", "kraus", "trace_out", "ce.combine", "ce.reorder", "ce.expand"):
        return list(r["on"])
    if do == "povm":
        out = list(r["on"])
        for n in r["on"]:
            p = world.partner(n)
            if p and p not in out and _live(pre, p):
                out.append(p)  # the envelope partner may be measured as a follow-up (DESIGN 11.5)
        return out
    if do == "measure":
        return specified_set(world, pre, r)
    if do.startswith("env."):
        e = r["env"]
        return [n for n in (e + ".f", e + ".p") if _live(pre, n)]
    if do in ("sub.expand", "sub.contract", "resize"):
        return [r["sub"]]
    if do == "ps.contract":
        b = pre.block_of(r["sub"])
        return list(b.members) if b is not None else [r["sub"]]
    if do == "fault":
        return list(r.get("on", []))
    return []


def _entry_obj(world, r):
    entry = r["entry"]
    if entry == "env":
        return world.envs[r["env"]]
    if entry == "ce":
        return world.ces[r["ce"]]
    return None


_SUBCLASS_CACHE = {}


def _subclasses(*bases):
    out = []
    for b in bases:
        if b not in _SUBCLASS_CACHE:
            _SUBCLASS_CACHE[b] = type("User" + b.__name__, (b,), {"__doc__": "a user's subclass; adds nothing"})
        out.append(_SUBCLASS_CACHE[b])
    return out


def _flag(r, v):
    """Boolean flags as the caller may hold them: a Python bool, or the numpy bool a comparison returns."""
    return np.bool_(v) if r.get("flagtype") == "np" else bool(v)


def _execute(world, pre, r, do):
    from photon_weave.photon_weave import Config
    from photon_weave.state.composite_envelope import CompositeEnvelope
    from photon_weave.state.custom_state import CustomState
    from photon_weave.state.envelope import Envelope
    from photon_weave.state.polarization import PolarizationLabel

    S = addressed_of(world, pre, r)
    if do == "mk_env":
        if r.get("explicit"):
            from photon_weave.state.fock import Fock
            from photon_weave.state.polarization import Polarization

            if r.get("subclass"):
                # user subclasses of the library's classes (a photon source model, a quantum dot, ...)
                EnvT, FockT, PolT = _subclasses(Envelope, Fock, Polarization)
                env = EnvT(fock=FockT(), polarization=PolT(PolarizationLabel(r.get("pol", "H"))))
            else:
                env = Envelope(fock=Fock(), polarization=Polarization(PolarizationLabel(r.get("pol", "H"))))
        else:
            env = Envelope()
        if r.get("fock", 0):
            env.fock.state = int(r["fock"])
        if r.get("dims"):
            env.fock.dimensions = int(r["dims"])
        if r.get("pol", "H") != "H" and not r.get("explicit"):
            env.polarization.state = PolarizationLabel(r["pol"])
        world.add_env(r["name"], env, r["client"])
        return ExecResult("ok", addressed=[])
    if do == "mk_custom":
        cs = (_subclasses(CustomState)[0] if r.get("subclass") else CustomState)(int(r["d"]))
        if r.get("label", 0):
            cs.state = int(r["label"])
        world.add_custom(r["name"], cs, r["client"])
        return ExecResult("ok", addressed=[])
    if do == "mk_op":
        op, spec = get_op(world, r)
        return ExecResult("ok", addressed=[])
    if do == "mut_op":
        # a parameter scan that re-uses one Operation object: op.kwargs[...] = new value. The pool
        # knows the object under a new name from here on (specs are immutable, replays stay exact)
        op, old = world.ops.pop(r["op"])
        new = world.op_specs[r["as"]]
        if new["t"] == "F.Displace":
            op.kwargs["alpha"] = complex(new["re"], new["im"])
        elif new["t"] == "F.Squeeze":
            op.kwargs["zeta"] = complex(new["re"], new["im"])
        else:
            for k in ("theta", "phi", "omega", "eta"):
                if k in new and new[k] != old.get(k):
                    op.kwargs[k] = new[k]
        world.ops[r["as"]] = (op, new)
        return ExecResult("ok", addressed=[])
    if do == "mk_ce":
        args = []
        for n in r["of"]:
            args.append(world.envs.get(n) or world.customs.get(n) or world.ces.get(n))
        try:
            ce = CompositeEnvelope(*args)
        finally:
            pass
        world.add_ce(r["name"], ce, r["client"])
        for n in r["of"]:
            if n in world.ces:
                world.merge(r["name"], n)
            else:
                prev = world.ce_of.get(n)
                if prev is not None:
                    world.merge(r["name"], prev)
        for n in r["of"]:
            if n not in world.ces:
                world.ce_of[n] = r["name"]
        return ExecResult("ok", addressed=[])
    if do == "config":
        C = Config()
        if "contraction" in r:
            C.set_contraction(bool(r["contraction"]))
        if "seed" in r:
            C.set_seed(int(r["seed"]))
        return ExecResult("ok", addressed=[])
    if do == "op":
        op, spec = get_op(world, r)
        subs = [world.sub(n) for n in r["on"]]
        entry = r["entry"]
        if entry == "state":
            ret = subs[0].apply_operation(op)
        elif entry == "env":
            ret = world.envs[r["env"]].apply_operation(op, *subs)
        else:
            ret = world.ces[r["ce"]].apply_operation(op, *subs)
        return ExecResult("ok", ret=ret, addressed=S, info={"spec": spec})
    if do == "kraus":
        dims = _dims_of(pre, r["on"])
        mats = specs.operator_set(r["ch"], dims)
        arrs = specs.to_library_arrays(mats, r.get("arr", "jnp"))
        for a in arrs:
            world.user_arrays.append(("kraus", a, _digest(a)))
        subs = [world.sub(n) for n in r["on"]]
        entry = r["entry"]
        kw = {"identity_check": _flag(r, False)} if r.get("idc") is False else {}
        world.last_np_kraus = (arrs, list(r["on"]), entry, r.get("env"), r.get("ce"), dims) if r.get("arr") == "np" else None
        if entry == "state" and r.get("style") == "pos":
            ret = subs[0].apply_kraus(arrs, _flag(r, r.get("idc") is not False))
        elif entry == "state":
            ret = subs[0].apply_kraus(arrs, **kw)
        elif entry == "env":
            ret = world.envs[r["env"]].apply_kraus(arrs, *subs)
        else:
            ret = world.ces[r["ce"]].apply_kraus(arrs, *subs, **kw)
        return ExecResult("ok", ret=ret, addressed=S, info={"mats": mats})
    if do == "povm":
        dims = _dims_of(pre, r["on"])
        mats = specs.operator_set(r["m"], dims)
        arrs = specs.to_library_arrays(mats, r.get("arr", "jnp"))
        for a in arrs:
            world.user_arrays.append(("povm", a, _digest(a)))
        subs = [world.sub(n) for n in r["on"]]
        entry = r["entry"]
        destr = _flag(r, r.get("destr", True))
        partial = _flag(r, r.get("partial", False))
        style = r.get("style", "kw")
        kwd = {"destructive": destr} if (style == "kw" or not destr) else {}
        if entry == "state" and style == "pos":
            ret = subs[0].measure_POVM(arrs, destr, partial)
        elif entry == "state":
            kwp = {"partial": partial} if (style == "kw" or partial) else {}
            ret = subs[0].measure_POVM(arrs, **kwd, **kwp)
        elif entry == "env":
            ret = world.envs[r["env"]].measure_POVM(arrs, *subs, **kwd)
        else:
            ret = world.ces[r["ce"]].measure_POVM(arrs, *subs, **kwd)
        return ExecResult("ok", ret=ret, addressed=S, info={"mats": mats})
    if do == "measure":
        subs = [world.sub(n) for n in r.get("on", [])]
        entry = r["entry"]
        sep, destr = _flag(r, r.get("sep", False)), _flag(r, r.get("destr", True))
        style = r.get("style", "kw")
        kw = {"separate_measurement": sep, "destructive": destr}
        if style != "kw":
            # documented defaults left to the library
            kw = {k: v for k, v in kw.items() if v != {"separate_measurement": False, "destructive": True}[k]}
        if entry == "state" and style == "pos":
            ret = subs[0].measure(sep, destr)
        elif entry == "state":
            ret = subs[0].measure(**kw)
        elif entry == "env":
            ret = world.envs[r["env"]].measure(*subs, **kw)
        else:
            ret = world.ces[r["ce"]].measure(*subs, **kw)
        return ExecResult("ok", ret=ret, addressed=S)
    if do == "env.combine":
        return ExecResult("ok", ret=world.envs[r["env"]].combine(), addressed=S)
    if do == "env.reorder":
        return ExecResult(
            "ok", ret=world.envs[r["env"]].reorder(*[world.sub(n) for n in r["on"]]), addressed=S
        )
    if do == "env.expand":
        return ExecResult("ok", ret=world.envs[r["env"]].expand(), addressed=S)
    kwt = {"tol": float(r["tol"])} if r.get("tol") else {}
    if do == "env.contract":
        return ExecResult("ok", ret=world.envs[r["env"]].contract(**kwt), addressed=S)
    if do == "ps.contract":
        # the product space that holds the member, contracted directly (CompositeEnvelope.contract is a stub)
        target = world.sub(r["sub"])
        for ps in world.ces[r["ce"]].product_states:
            if any(so is target for so in ps.state_objs):
                return ExecResult("ok", ret=ps.contract(**kwt), addressed=S)
        raise RuntimeError("harness: product space not found")
    if do == "sub.expand":
        return ExecResult("ok", ret=world.sub(r["sub"]).expand(), addressed=S)
    if do == "sub.contract":
        return ExecResult("ok", ret=world.sub(r["sub"]).contract(**kwt), addressed=S)
    if do == "ce.combine":
        return ExecResult(
            "ok", ret=world.ces[r["ce"]].combine(*[world.sub(n) for n in r["on"]]), addressed=S
        )
    if do == "ce.reorder":
        return ExecResult(
            "ok", ret=world.ces[r["ce"]].reorder(*[world.sub(n) for n in r["on"]]), addressed=S
        )
    if do == "ce.expand":
        return ExecResult(
            "ok", ret=world.ces[r["ce"]].expand(*[world.sub(n) for n in r["on"]]), addressed=S
        )
    if do == "trace_out":
        subs = [world.sub(n) for n in r["on"]]
        entry = r["entry"]
        if entry == "state":
            ret = subs[0].trace_out()
        elif entry == "env":
            ret = world.envs[r["env"]].trace_out(*subs)
        elif entry == "ps":
            ret = None
            for ps in world.ces[r["ce"]].product_states:
                if any(so is subs[0] for so in ps.state_objs):
                    ret = ps.trace_out(*subs)
                    break
            else:
                raise RuntimeError("harness: product space not found")
        else:
            ret = world.ces[r["ce"]].trace_out(*subs)
        return ExecResult("ok", ret=ret, addressed=S)
    if do == "resize":
        f = world.sub(r["sub"])
        entry = r["entry"]
        if entry == "state":
            ret = f.resize(int(r["new"]))
        elif entry == "env":
            ret = world.envs[world.env_of(r["sub"])].resize_fock(int(r["new"]))
        else:
            ret = world.ces[r["ce"]].resize_fock(int(r["new"]), f)
        return ExecResult("ok", ret=ret, addressed=S)
    if do == "fault":
        return execute_fault(world, pre, r)
    raise RuntimeError("HARNESS: unknown action " + do)


# ------------------------------------------------------------------------------------------
# faults (invalid requests; DESIGN 2.5)
# ------------------------------------------------------------------------------------------
def fault_applicable(world, pre, r):
    k = r["kind"]
    on = r.get("on", [])
    entry = r.get("entry", "state")
    if k == "missing_param":
        return True, ""
    for n in on:
        if not _exists(pre, n):
            return False, "no-such-target"
    if k == "use_destroyed":
        if not on or not pre.sub[on[0]]["measured"]:
            return False, "target-not-destroyed"
        if entry == "ce" and r.get("ce") not in world.ces:
            return False, "no-such-ce"
        if entry == "ce" and not _in_class(world, on[0], r["ce"]):
            return False, "not-in-composite"
        if r["how"] in ("op2", "measure2"):
            if len(on) != 2 or not _live(pre, on[1]) or not _in_class(world, on[1], r["ce"]):
                return False, "second-target"
        return True, ""
    for n in on:
        if not _live(pre, n):
            return False, "target-not-live"
    if entry == "env":
        e = r.get("env")
        if e not in world.envs or pre.env[e]["measured"]:
            return False, "envelope"
    if entry == "ce":
        if r.get("ce") not in world.ces:
            return False, "no-such-ce"
    if k in ("kraus_not_tp", "kraus_wrong_shape", "povm_wrong_shape"):
        ok, why = _targets_ok(world, pre, r, on, entry, 2)
        if not ok:
            return ok, why
        dims = _dims_of(pre, on)
        if any(d <= 0 for d in dims) or int(np.prod(dims)) > 32:
            return False, "dims"
        return True, ""
    if k == "custom_op_wrong_shape":
        ok, why = _targets_ok(world, pre, r, on, entry, 1)
        if not ok:
            return ok, why
        return (world.kind(on[0]) in ("P", "C")), "kind"
    if k == "wrong_kind":
        how = r["how"]
        if how == "single":
            ok, why = _targets_ok(world, pre, r, on, entry, 1)
            if not ok:
                return ok, why
            return (world.kind(on[0]) in ("F", "P")), "kind"
        ok, why = _targets_ok(world, pre, r, on, "ce", 2)
        if not ok:
            return ok, why
        return (len(on) == 2 and {world.kind(n) for n in on} != {"P"}), "kinds"
    if k == "outside_container":
        how = r["how"]
        if how in ("env.kraus", "env.povm", "env.reorder"):
            e = r["env"]
            return (len(on) == 1 and world.env_of(on[0]) not in (None, e)), "member"
        if how == "ce.op2":
            if len(on) != 2:
                return False, "targets"
            ce = r["ce"]
            return (
                _in_class(world, on[0], ce)
                and not _in_class(world, on[1], ce)
                and world.kind(on[0]) == "P"
                and world.kind(on[1]) == "P"
            ), "classes"
        if how == "ce.resize":
            return (world.kind(on[0]) == "F" and not _in_class(world, on[0], r["ce"])), "class"
        return False, "how"
    if k == "annihilate_vacuum":
        ok, why = _targets_ok(world, pre, r, on, entry, 1)
        if not ok:
            return ok, why
        if world.kind(on[0]) != "F":
            return False, "kind"
        r_, d_ = _reduced(pre, [on[0]])
        if r_ is None:
            return False, "no-reference"
        # exactly the vacuum: numerical dust above |0> makes a|psi> a tiny non-zero vector, which the
        # library (legitimately) renormalises instead of rejecting
        return bool(np.all(np.abs(r_[1:, :]) == 0) and np.all(np.abs(r_[:, 1:]) == 0)), "not-exactly-vacuum"
    if k == "shrink_below_support":
        if world.kind(on[0]) != "F":
            return False, "kind"
        if entry == "env" and pre.env[world.env_of(on[0])]["measured"]:
            return False, "envelope"
        if entry == "ce" and not _in_class(world, on[0], r["ce"]):
            return False, "class"
        s = support(pre, on[0])
        if s is None or s < 2:
            return False, "support<2"
        if pre.sub[on[0]]["dims"] <= 0:
            return False, "dims-unset"
        return True, ""
    return False, "unknown-fault"


def execute_fault(world, pre, r):
    """Issue the invalid request. Returns ExecResult('ok', ...) if the library did NOT raise
    (info['returned'] holds the return value), the generic handler turns exceptions into
    'raised'."""
    import jax.numpy as jnp

    from photon_weave.operation import (
        CompositeOperationType,
        CustomStateOperationType,
        FockOperationType,
        Operation,
        PolarizationOperationType,
    )

    k = r["kind"]
    on = r.get("on", [])
    subs = [world.sub(n) for n in on]
    entry = r.get("entry", "state")
    S = list(on)

    def call_kraus(arrs):
        if entry == "state":
            return subs[0].apply_kraus(arrs)
        if entry == "env":
            return world.envs[r["env"]].apply_kraus(arrs, *subs)
        return world.ces[r["ce"]].apply_kraus(arrs, *subs)

    def call_povm(arrs):
        if entry == "state":
            return subs[0].measure_POVM(arrs)
        if entry == "env":
            return world.envs[r["env"]].measure_POVM(arrs, *subs)
        return world.ces[r["ce"]].measure_POVM(arrs, *subs)

    def call_op(op, ss=None):
        ss = subs if ss is None else ss
        if entry == "state":
            return ss[0].apply_operation(op)
        if entry == "env":
            return world.envs[r["env"]].apply_operation(op, *ss)
        return world.ces[r["ce"]].apply_operation(op, *ss)

    if k == "missing_param":
        Operation(PolarizationOperationType.RX)
        return ExecResult("ok", addressed=[], info={"returned": "constructed"})
    if k == "kraus_not_tp":
        dims = _dims_of(pre, on)
        D = int(np.prod(dims))
        mats = R.dilation_kraus(D, 2, int(r.get("seed", 5)))
        how = r.get("how", "scale")
        if how == "inplace":
            # the numpy arrays of the channel that was just accepted, changed in place by the caller
            # and handed in again: the very same objects, no longer trace preserving
            last = getattr(world, "last_np_kraus", None)
            world.last_np_kraus = None
            if last is None or last[1] != list(on) or last[2] != entry or last[5] != dims:
                return ExecResult("skipped", msg="no-accepted-numpy-set")
            for a in last[0]:
                a *= 1.3
            world.user_arrays = [(l, a, _digest(a)) for (l, a, d) in world.user_arrays]
            ret = call_kraus(last[0])
            return ExecResult("ok", ret=ret, addressed=S, info={"returned": ret})
        if D == 1 and how in ("imag", "offdiag"):
            how = "diag1"
        if how == "scale":
            mats = [1.3 * m for m in mats]
        elif how == "drop":
            mats = mats[:1]
        else:
            # sum K^dagger K = 1 + E with a structured hermitian defect E: purely imaginary
            # off-diagonal, real off-diagonal, or a single diagonal entry
            eps = float(r.get("eps", 0.3))
            rs = np.random.RandomState(int(r.get("seed", 5)))
            g = rs.uniform(0.4, 1.0, size=(D, D)) * rs.choice([-1.0, 1.0], size=(D, D))
            if how == "imag":
                E = 1j * (np.triu(g, 1) - np.triu(g, 1).T)
            elif how == "offdiag":
                E = np.triu(g, 1) + np.triu(g, 1).T
            else:
                E = np.zeros((D, D))
                j = int(r.get("seed", 5)) % D
                E[j, j] = 1.0
            E = eps * E / max(1.0, np.abs(np.linalg.eigvalsh(E)).max())
            w, V = np.linalg.eigh(np.eye(D) + E)
            M = (V * np.sqrt(np.clip(w, 0, None))) @ V.conj().T
            if r.get("single"):
                mats = [M]
            else:
                mats = [m @ M for m in mats]
        ret = call_kraus(specs.to_library_arrays(mats))
        return ExecResult("ok", ret=ret, addressed=S, info={"returned": ret})
    if k in ("kraus_wrong_shape", "povm_wrong_shape"):
        dims = _dims_of(pre, on)
        D0 = int(np.prod(dims))
        D = D0 + int(r.get("delta", 1))
        if D < 1:
            D = D0 + 1
        shape = r.get("shape", "square")
        big = R.dilation_kraus(D0 + 1, 2, int(r.get("seed", 5)))
        if shape == "square":
            mats = R.dilation_kraus(D, 2, int(r.get("seed", 5)))
        elif shape == "tall":  # (D0+1) x D0: sum M^dagger M is still the D0 x D0 identity
            mats = [m[:, :D0] for m in big]
            w, V = np.linalg.eigh(sum(m.conj().T @ m for m in mats))
            fixm = (V / np.sqrt(w)) @ V.conj().T
            mats = [m @ fixm for m in mats]
        elif shape == "wide":  # D0 x (D0+1)
            mats = [m[:D0, :] for m in big]
        elif shape == "mixed":  # a valid set with one operator of another size appended
            mats = [m / np.sqrt(2) for m in R.dilation_kraus(D0, 2, int(r.get("seed", 5)))] + [np.eye(D0 + 1) / np.sqrt(2)]
        elif shape == "vector":
            mats = [np.ones(D0) / np.sqrt(D0)]
        elif shape == "empty":
            mats = []
        else:
            raise ValueError(shape)
        arrs = specs.to_library_arrays(mats)
        ret = call_kraus(arrs) if k == "kraus_wrong_shape" else call_povm(arrs)
        return ExecResult("ok", ret=ret, addressed=S, info={"returned": ret})
    if k == "custom_op_wrong_shape":
        kind = world.kind(on[0])
        d = pre.sub[on[0]]["dims"] + 1
        m = jnp.asarray(R.haar_unitary(d, 3))
        if kind == "P":
            op = Operation(PolarizationOperationType.Custom, operator=m)
        else:
            op = Operation(CustomStateOperationType.Custom, operator=m)
        ret = call_op(op)
        return ExecResult("ok", ret=ret, addressed=S, info={"returned": ret})
    if k == "wrong_kind":
        if r["how"] == "single":
            if world.kind(on[0]) == "P":
                op = Operation(FockOperationType.PhaseShift, phi=0.7)
            else:
                op = Operation(PolarizationOperationType.X)
            ret = call_op(op)
        else:
            op = Operation(CompositeOperationType.CXPolarization)
            ret = world.ces[r["ce"]].apply_operation(op, *subs)
        return ExecResult("ok", ret=ret, addressed=S, info={"returned": ret})
    if k == "outside_container":
        how = r["how"]
        if how == "env.kraus":
            d = pre.sub[on[0]]["dims"]
            d = d if d > 0 else 2
            ret = world.envs[r["env"]].apply_kraus(specs.to_library_arrays(R.dilation_kraus(d, 2, 7)), *subs)
        elif how == "env.povm":
            d = pre.sub[on[0]]["dims"]
            d = d if d > 0 else 2
            ret = world.envs[r["env"]].measure_POVM(specs.to_library_arrays(R.dilation_kraus(d, 2, 7)), *subs)
        elif how == "env.reorder":
            ret = world.envs[r["env"]].reorder(*subs)
        elif how == "ce.op2":
            ret = world.ces[r["ce"]].apply_operation(Operation(CompositeOperationType.CXPolarization), *subs)
        elif how == "ce.resize":
            ret = world.ces[r["ce"]].resize_fock(pre.sub[on[0]]["dims"] + 2 if pre.sub[on[0]]["dims"] > 0 else 5, subs[0])
        else:
            raise RuntimeError("HARNESS: how")
        return ExecResult("ok", ret=ret, addressed=S, info={"returned": ret})
    if k == "annihilate_vacuum":
        if r.get("how") == "custom":
            # the same invalid request through a user supplied (non-renormalising) operator
            d = max(pre.sub[on[0]]["dims"], 2)
            ret = call_op(Operation(FockOperationType.Custom, operator=jnp.asarray(R.destroy(d))))
        else:
            ret = call_op(Operation(FockOperationType.Annihilation))
        return ExecResult("ok", ret=ret, addressed=S, info={"returned": ret})
    if k == "shrink_below_support":
        s = support(pre, on[0])
        new = max(1, s - 1 - int(r.get("below", 0)))
        if entry == "state":
            ret = subs[0].resize(new)
        elif entry == "env":
            ret = world.envs[world.env_of(on[0])].resize_fock(new)
        else:
            ret = world.ces[r["ce"]].resize_fock(new, subs[0])
        return ExecResult("ok", ret=ret, addressed=S, info={"returned": ret, "new": new, "documented_failure": False})
    if k == "use_destroyed":
        how = r["how"]
        kind = world.kind(on[0])
        d = 2 if kind == "P" else max(pre.sub[on[0]]["dims"], 2)
        if how == "op":
            op = Operation(PolarizationOperationType.X) if kind == "P" else Operation(FockOperationType.PhaseShift, phi=0.3)
            ret = call_op(op, [subs[0]])
        elif how == "op2":
            ret = world.ces[r["ce"]].apply_operation(
                Operation(CompositeOperationType.CXPolarization)
                if kind == "P"
                else Operation(CompositeOperationType.NonPolarizingBeamSplitter, eta=0.4),
                *subs,
            )
        elif how == "kraus":
            arrs = specs.to_library_arrays(R.dilation_kraus(d, 2, 9))
            if entry == "state":
                ret = subs[0].apply_kraus(arrs)
            elif entry == "env":
                ret = world.envs[world.env_of(on[0])].apply_kraus(arrs, subs[0])
            else:
                ret = world.ces[r["ce"]].apply_kraus(arrs, subs[0])
        elif how == "measure":
            if entry == "state":
                ret = subs[0].measure()
            elif entry == "env":
                ret = world.envs[world.env_of(on[0])].measure(subs[0], separate_measurement=True)
            else:
                ret = world.ces[r["ce"]].measure(subs[0], separate_measurement=True)
        elif how == "measure2":
            # a live subsystem listed BEFORE the destroyed one: nothing may be measured
            ret = world.ces[r["ce"]].measure(subs[1], subs[0], separate_measurement=True, destructive=bool(r.get("destr", True)))
        elif how == "povm":
            arrs = specs.to_library_arrays(R.dilation_kraus(d, 2, 9))
            if entry == "state":
                ret = subs[0].measure_POVM(arrs)
            elif entry == "env":
                ret = world.envs[world.env_of(on[0])].measure_POVM(arrs, subs[0])
            else:
                ret = world.ces[r["ce"]].measure_POVM(arrs, subs[0])
        elif how == "combine":
            if entry == "env":
                ret = world.envs[world.env_of(on[0])].combine()
            else:
                ret = world.ces[r["ce"]].combine(subs[0])
        else:
            raise RuntimeError("HARNESS: how")
        return ExecResult("ok", ret=ret, addressed=S, info={"returned": ret})
    raise RuntimeError("HARNESS: unknown fault " + k)
