"""
World: the set of objects the simulated clients have created, with stable names.

Names: envelopes ``e0, e1, ...``; their members ``e0.f`` / ``e0.p``; custom states ``s0, ...``;
composite-envelope handles ``ce0, ...``; operations ``op0, ...``.  Names are assigned in
creation order, never derived from id() or uid.
"""

from __future__ import annotations

from sim import seams


class World:
    def __init__(self):
        self.envs = {}  # name -> Envelope
        self.customs = {}  # name -> CustomState
        self.ces = {}  # name -> CompositeEnvelope handle
        self.ops = {}  # name -> (Operation, spec)
        self.owner = {}  # object name -> client id
        self.user_arrays = []  # (label, array, digest) handed to the library
        self._name_by_id = {}
        self._merge_parent = {}  # history-based merge classes of composite handles
        self.ce_of = {}  # envelope / custom-state name -> a handle of the composite it was put in
        self.op_specs = {}  # op name -> spec (pool declared by the run)

    def merge_root(self, h):
        p = self._merge_parent
        while p.get(h, h) != h:
            h = p[h]
        return h

    def merge(self, a, b):
        ra, rb = self.merge_root(a), self.merge_root(b)
        if ra != rb:
            self._merge_parent[rb] = ra

    # -- registry ---------------------------------------------------------------------
    def add_env(self, name, env, client):
        self.envs[name] = env
        self.owner[name] = client
        self._name_by_id[id(env)] = name
        self._name_by_id[id(env.fock)] = name + ".f"
        self._name_by_id[id(env.polarization)] = name + ".p"

    def add_custom(self, name, cs, client):
        self.customs[name] = cs
        self.owner[name] = client
        self._name_by_id[id(cs)] = name

    def add_ce(self, name, ce, client):
        self.ces[name] = ce
        self.owner[name] = client
        self._name_by_id[id(ce)] = name

    def name_of(self, obj):
        return self._name_by_id.get(id(obj))

    def sub(self, name):
        if name.endswith(".f"):
            e = self.envs.get(name[:-2])
            return None if e is None else e.fock
        if name.endswith(".p"):
            e = self.envs.get(name[:-2])
            return None if e is None else e.polarization
        return self.customs.get(name)

    def sub_names(self):
        out = []
        for en in self.envs:
            out.append(en + ".f")
            out.append(en + ".p")
        out.extend(self.customs.keys())
        return out

    def kind(self, name):
        if name.endswith(".f"):
            return "F"
        if name.endswith(".p"):
            return "P"
        return "C"

    def env_of(self, subname):
        if "." in subname:
            return subname.split(".")[0]
        return None

    def partner(self, subname):
        if subname.endswith(".f"):
            return subname[:-2] + ".p"
        if subname.endswith(".p"):
            return subname[:-2] + ".f"
        return None

    def client_of(self, name):
        base = name.split(".")[0]
        return self.owner.get(base)


def reset_library(contraction=True, seed=1):
    """Canonical start state of the process-global library state (DESIGN 1.3)."""
    from photon_weave.operation import CompositeOperationType
    from photon_weave.photon_weave import Config
    from photon_weave.state.composite_envelope import CompositeEnvelope

    CompositeEnvelope._containers.clear()
    CompositeEnvelope._instances.clear()
    C = Config()
    C.set_contraction(bool(contraction))
    C.set_seed(int(seed))
    CompositeOperationType.Expression.expected_base_state_types = []
    seams.reset()
