"""
Runner: one run = one seed (or one recorded recipe list) executed step by step against the
real library, every oracle evaluated on every step.
"""

from __future__ import annotations

import hashlib
import json
import logging
import signal
import time

import numpy as np

from sim import actions, alpha, oracles, seams
from sim.world import World, reset_library

STEP_TIMEOUT_S = 75
RUN_BUDGET_S = 120


class StepTimeout(BaseException):
    # not an Exception: the generic "the library raised" handler must not mistake the watchdog for the library
    pass


def _alarm(signum, frame):
    raise StepTimeout()


class _FormatOnly(logging.Handler):
    """A handler that does what any real handler does - it formats the record - and writes nowhere."""

    def emit(self, record):
        try:
            record.getMessage()
        except Exception:
            pass


_HANDLER = _FormatOnly()


def set_logging(debug):
    """The logging configuration of the process is part of the environment a run happens in: a user
    who calls logging.basicConfig(level=logging.DEBUG) must get the same physics. (jax's own loggers
    are kept at WARNING, their debug records are expensive and not the library's.)"""
    root = logging.getLogger()
    if _HANDLER not in root.handlers:
        root.addHandler(_HANDLER)
    logging.getLogger("jax").setLevel(logging.WARNING)
    logging.getLogger("jaxlib").setLevel(logging.WARNING)
    root.setLevel(logging.DEBUG if debug else logging.WARNING)
    # env.boot() silences the library's INFO chatter with logging.disable(CRITICAL); a DEBUG run lifts that
    logging.disable(logging.NOTSET if debug else logging.CRITICAL)


def make_chooser(seed, ctx):
    def choose(p, ordinal, n):
        p = np.real(np.asarray(p, dtype=np.complex128)).copy()
        p[~np.isfinite(p)] = 0.0
        p[p < 0] = 0.0
        tot = p.sum()
        # forced outcomes stay where post-selection does not amplify rounding noise (oracles.SUPPORT)
        supp = np.where(p > max(1e-12, float(ctx.get("min_branch") or 1e-6) * tot))[0]
        if len(supp) == 0:
            return 0
        if len(supp) == 1 or p.max() / tot > 1 - 1e-9:
            return int(np.argmax(p))
        follow = ctx.get("follow")
        if follow is not None:
            # follower twin: take the leader's outcome of the matching draw of this step (same length,
            # same distribution up to what a legitimate contraction may change); extra draws that the
            # leader did not make (near point masses) take the most probable outcome
            lst = follow.get(ctx["sid"], [])
            pn = p / tot
            best = None
            for item in lst:
                if item.get("used") or item["p"] is None or item["idx"] >= n:
                    continue
                q = item["p"]
                m = max(len(q), len(pn))  # Fock cut-offs may differ between the twins: pad with zeros
                qq = np.pad(q, (0, m - len(q)))
                pp = np.pad(pn, (0, m - len(pn)))
                dist = float(np.max(np.abs(qq - pp)))
                if dist < 1e-4 and p[item["idx"]] > 1e-12:
                    # the leader's draw of the same length that was not a point mass comes first: a
                    # weakly populated outcome (1e-5) is within 1e-4 of a point-mass draw of the partner
                    # (ties - two members in the same state - go to the earlier draw: the distance only
                    # separates "the same distribution" from "merely close", rounding noise must not reorder)
                    rank = (len(q) != n, float(q.max()) > 1 - 1e-9, dist > 1e-7)
                    if best is None or rank < best[0]:
                        best = (rank, item)
            if best is not None:
                best[1]["used"] = True
                return int(best[1]["idx"])
            return int(np.argmax(p))
        k = ctx["nondeg"]
        ctx["nondeg"] += 1
        forced = ctx.get("forced")
        if forced is not None:
            key = f"{ctx['sid']}:{k}"
            if key in forced and forced[key] in supp:
                return int(forced[key])
        u1 = seams.unit(seed, "oc", ctx["sid"], k, 1)
        u2 = seams.unit(seed, "oc", ctx["sid"], k, 2)
        if u1 < 0.5:
            return int(supp[min(int(u2 * len(supp)), len(supp) - 1)])
        c = np.cumsum(p / tot)
        return int(min(np.searchsorted(c, u2, side="right"), n - 1))

    return choose


def _round_digest(m, arr):
    a = np.asarray(arr)
    if a.dtype.kind == "c":
        a = np.round(a.real, 9) + 1j * np.round(a.imag, 9)
    elif a.dtype.kind == "f":
        a = np.round(a, 9)
    a = a + 0.0  # normalise -0.0
    m.update(str(a.shape).encode())
    m.update(np.ascontiguousarray(a).tobytes())


def world_digest(snap):
    m = hashlib.blake2b(digest_size=10)
    for b in sorted(snap.blocks, key=lambda b: b.members):
        m.update(repr((b.kind, b.members, b.dims, b.level, b.form)).encode())
        if b.form in ("vector", "matrix"):
            _round_digest(m, b.arr)
        else:
            m.update(repr(b.arr).encode())
    for n in sorted(snap.sub):
        s = snap.sub[n]
        m.update(repr((n, s["measured"], s["index"], s["level"], s["dims"])).encode())
    return m.hexdigest()


def ret_digest(world, ret):
    if ret is None:
        return "None"
    if isinstance(ret, dict):
        return "dict:" + ",".join(sorted(f"{world.name_of(k)}={int(v)}" for k, v in ret.items()))
    if isinstance(ret, tuple) and len(ret) == 2 and isinstance(ret[1], dict):
        return f"povm:{int(ret[0])};" + ret_digest(world, ret[1])
    if isinstance(ret, bool):
        return str(ret)
    if hasattr(ret, "shape"):
        m = hashlib.blake2b(digest_size=8)
        _round_digest(m, ret)
        return "arr:" + m.hexdigest()
    return repr(ret)[:40]


class RunResult:
    def __init__(self):
        self.events = []  # JSON-able per-step records
        self.violations = []  # oracles.Violation
        self.recipes = []  # executed recipes (the op list)
        self.steps = 0
        self.checked = 0
        self.stopped = None
        self.digest = None
        self.cells = set()
        self.nontrivial_cells = set()
        self.fault_stats = {}
        self.perturb_stats = {}
        self.probes = {}
        self.branches = 0
        self.rare_branches = 0
        self.interleaving = []
        self.shapes = set()
        self.snapshots = None  # optional list of (pre, post) kept for twin drivers
        self.forced = {}
        self.outcome_log = []
        self.harness_error = None
        self.slowest = (0.0, "", [])

    def probe(self, name, n=1):
        self.probes[name] = self.probes.get(name, 0) + n

    def finish(self):
        m = hashlib.blake2b(digest_size=12)
        for e in self.events:
            m.update(json.dumps(e, sort_keys=True, default=str).encode())
        self.digest = m.hexdigest()


def execute_run(
    cfg,
    recipes=None,
    gen=None,
    keep_snapshots=False,
    check=True,
    stop_on_taint=True,
    step_hook=None,
):
    """cfg: {seed, contraction, lib_seed, mode('forced'|'real'), ops{name:spec}, max_steps, forced{}}"""
    seed = int(cfg.get("seed", 0))
    reset_library(contraction=cfg.get("contraction", True), seed=cfg.get("lib_seed", 1))
    set_logging(bool(cfg.get("debuglog")))
    ctx = {"sid": None, "nondeg": 0, "forced": cfg.get("forced"), "follow": cfg.get("follow"), "min_branch": cfg.get("min_branch")}
    seams.reset(mode=cfg.get("mode", "forced"), chooser=make_chooser(seed, ctx))
    world = World()
    world.op_specs = cfg.get("ops", {})
    world.fresh_ops = bool(cfg.get("fresh_ops"))  # C15 twin: a new Operation object for every application
    rr = RunResult()
    _run_t0 = time.time()
    rr.world = world
    if keep_snapshots:
        rr.snapshots = []
    pre = alpha.snapshot(world)
    max_steps = int(cfg.get("max_steps", 10**6))
    i = 0
    old = signal.signal(signal.SIGALRM, _alarm)
    try:
        while i < max_steps:
            if recipes is not None:
                if i >= len(recipes):
                    break
                r = recipes[i]
            else:
                r = gen.next(world, pre, i)
                if r is None:
                    break
            i += 1
            r = dict(r)
            if "sid" not in r:
                r["sid"] = i
            ctx["sid"] = r["sid"]
            ctx["nondeg"] = 0
            seams.take_draws()
            signal.alarm(STEP_TIMEOUT_S)
            _t0 = time.time()
            try:
                res = actions.execute(world, pre, r)
            except StepTimeout:
                rr.harness_error = f"HARNESS:step-timeout at sid {r['sid']}: {json.dumps(r, default=str)[:200]}"
                rr.stopped = "timeout"
                break
            finally:
                signal.alarm(0)
            res.draws = seams.take_draws()
            _dt = time.time() - _t0
            if _dt > rr.slowest[0]:
                rr.slowest = (_dt, json.dumps({k: v for k, v in r.items() if k != "client"}, default=str)[:200], [b.dims for b in pre.blocks if len(b.members) > 1])
            post = alpha.snapshot(world)
            rr.recipes.append(r)
            rr.steps += 1
            viols = []
            if res.status != "skipped" and check:
                viols = oracles.check_step(world, pre, post, r, res)
                rr.checked += 1
                for v in viols:
                    v.sid = r["sid"]
                    v.step = i - 1
                rr.violations.extend(viols)
            _account(rr, world, pre, post, r, res, ctx)
            ev = {
                "sid": r["sid"],
                "do": r["do"],
                "st": res.status,
                "exc": res.exc,
                "ret": ret_digest(world, res.ret) if res.status == "ok" else None,
                "draws": [
                    [d["idx"], d["n"], None if d["p"] is None else [round(float(np.real(x)), 9) for x in np.asarray(d["p"]).ravel()]]
                    for d in res.draws
                ],
                "w": world_digest(post),
                "v": sorted(repr(v.signature()) for v in viols),
            }
            rr.events.append(ev)
            if keep_snapshots:
                rr.snapshots.append((pre, post, res))
            if step_hook is not None:
                step_hook(world, pre, post, r, res, viols)
            if post.tainted() and stop_on_taint:
                rr.stopped = "taint"
                break
            if post.too_big:
                rr.stopped = "size"
                break
            if time.time() - _run_t0 > RUN_BUDGET_S:
                # a run that is merely slow (many expensive steps, each below the step watchdog) ends
                # here as a harness record; it must never reach the worker's hard watchdog
                rr.harness_error = f"HARNESS:run-budget {RUN_BUDGET_S} s used after {rr.steps} steps"
                rr.stopped = "timeout"
                break
            pre = post
    finally:
        signal.signal(signal.SIGALRM, old)
        signal.alarm(0)
    rr.final = pre
    rr.keys = list(seams.keys_log())
    rr.sampler_keys = list(seams.sampler_keys_log())
    rr.finish()
    return rr


def _account(rr, world, pre, post, r, res, ctx):
    do = r["do"]
    rr.interleaving.append(r.get("client", 0))
    rr.shapes.add(post.layout_digest())
    if res.status == "skipped":
        rr.probe("skipped:" + str(res.msg))
        return
    cell = oracles.make_cell(world, pre, r, res.addressed)
    key = json.dumps({k: v for k, v in cell.items()}, sort_keys=True)
    rr.cells.add(key)
    S = res.addressed
    if do not in ("mk_env", "mk_custom", "mk_op", "mut_op", "mk_ce", "config"):
        pc = oracles._pre_class(pre, S) if S else "-"
        if pc in ("superposed", "entangled", "mixed"):
            rr.nontrivial_cells.add(key + pc)
    if do == "fault":
        k = r["kind"]
        st = rr.fault_stats.setdefault(k, {"fired": 0, "rejected": 0})
        st["fired"] += 1
        if res.status == "raised" or (k == "shrink_below_support" and not res.info.get("returned")):
            st["rejected"] += 1
    if r.get("perturb"):
        rr.perturb_stats[do] = rr.perturb_stats.get(do, 0) + 1
    for d in res.draws:
        if d["p"] is not None:
            p = np.real(np.asarray(d["p"], dtype=np.complex128))
            if np.all(np.isfinite(p)) and p.sum() > 0:
                pn = p / p.sum()
                if pn.max() < 1 - 1e-9:
                    rr.branches += 1
                    if 0 <= d["idx"] < len(pn) and pn[d["idx"]] < 0.1:
                        rr.rare_branches += 1
                if np.any(pn < 1e-12):
                    rr.probe("zero-probability-branch-present")
    if res.status == "ok" and isinstance(res.ret, dict):
        rr.outcome_log.append((r["sid"], oracles_names(world, res.ret)))
    if res.status == "ok" and isinstance(res.ret, tuple) and len(res.ret) == 2 and isinstance(res.ret[1], dict):
        rr.outcome_log.append((r["sid"], ("povm", int(res.ret[0]), oracles_names(world, res.ret[1]))))
    # rare-condition probes
    if do in ("measure", "povm"):
        npre = sum(len(c["ps"]) for c in pre.containers)
        npost = sum(len(c["ps"]) for c in post.containers)
        if npost < npre:
            rr.probe("product-space-emptied")
            for cp, cq in zip(pre.containers, post.containers):
                if len(cq["ps"]) < len(cp["ps"]) and cp["ps"] and cq["ps"] != cp["ps"][: len(cq["ps"])]:
                    rr.probe("product-space-emptied-while-not-last")
    if do == "mk_ce":
        of = r.get("of", [])
        roots = set()
        for n in of:
            if n in world.ces:
                roots.add(pre.handle_container.get(n))
        if len(of) > len(roots) and len(roots) >= 1 and sum(1 for n in of if n in world.ces) > len(roots):
            rr.probe("merge-of-handles-sharing-a-container")
        if sum(1 for n in of if n in world.ces) >= 2:
            rr.probe("merge-of-composites")
    if do == "op" and res.status == "ok":
        name = r["op"]
        dims = tuple(post.sub[n]["dims"] for n in r["on"])
        seen = rr.__dict__.setdefault("_op_dims", {})
        if name in seen and seen[name] != dims:
            rr.probe("operation-reused-at-different-dimension")
        seen.setdefault(name, dims)
        uses = rr.__dict__.setdefault("_op_uses", {})
        uses[name] = uses.get(name, 0) + 1
        if uses[name] == 2:
            rr.probe("operation-object-reused")
    if do == "resize" and res.status == "ok":
        s = actions.support(pre, r["sub"])
        if s is not None and r["new"] == s:
            rr.probe("resize-exactly-at-support")
    for n in S:
        bp, bq = pre.block_of(n), post.block_of(n)
        if bp is not None and bq is not None:
            if bp.form == "matrix" and bq.form == "label":
                rr.probe("contraction-matrix-to-label-in-one-step")


def oracles_names(world, d):
    return sorted((str(world.name_of(k)), int(v)) for k, v in d.items())
