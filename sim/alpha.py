"""
Abstraction function (object graph -> physics) and the whole-world invariants W07 / W13.

Reads only public attributes (DESIGN 3.1).  ``snapshot`` is total: whatever inconsistency
it meets is recorded as a problem (W07:* / W13:*), never raised.
"""

from __future__ import annotations

import hashlib

import numpy as np

from sim import refmodel as R

LABEL, VECTOR, MATRIX = 0, 1, 2

TOL_NORM = 1e-5
TOL_HERM = 1e-8
TOL_EIG = -1e-7


def _lvl(x):
    if x is None:
        return None
    try:
        return int(x)
    except Exception:
        return "bad"


def _digest(obj):
    m = hashlib.blake2b(digest_size=12)
    if obj is None:
        m.update(b"None")
    elif hasattr(obj, "shape") and hasattr(obj, "dtype"):
        a = np.asarray(obj)
        m.update(str(a.shape).encode())
        m.update(str(a.dtype).encode())
        m.update(np.ascontiguousarray(a).tobytes())
    else:
        m.update(repr(obj).encode())
    return m.hexdigest()


def array_form(arr, D, level=None):
    """'vector' / 'matrix' / 'bad' for an array that should describe dimension D."""
    shp = getattr(arr, "shape", None)
    if shp is None:
        return "bad"
    if D == 1 and tuple(shp) == (1, 1):
        return "matrix" if level == MATRIX else "vector"  # (1,1) is both
    if tuple(shp) == (D, 1):
        return "vector"
    if tuple(shp) == (D, D):
        # D == 1: (1,1) is both; call it matrix only if level says so (caller decides)
        return "matrix"
    return "bad"


class Block:
    __slots__ = (
        "kind",
        "owner",
        "members",
        "dims",
        "level",
        "form",
        "arr",
        "arr_id",
        "digest",
        "_rho",
        "client",
        "container",
        "ps_index",
    )

    def __init__(
        self, kind, owner, members, dims, level, form, arr, client=None, container=None, ps_index=None
    ):
        self.kind = kind
        self.owner = owner
        self.members = list(members)
        self.dims = list(dims)
        self.level = level
        self.form = form
        self.arr = arr
        self.arr_id = id(arr)
        self.digest = _digest(arr)
        self._rho = None
        self.client = client
        self.container = container
        self.ps_index = ps_index

    @property
    def D(self):
        return int(np.prod(self.dims)) if self.dims else 1

    def rho(self):
        """Density matrix of the block (numpy complex128) or None if malformed."""
        if self._rho is not None:
            return self._rho
        if self.form == "bad":
            return None
        if self.form == "label":
            d = self.dims[0]
            lab = self.arr
            if isinstance(lab, tuple) and lab[0] == "pol":
                v = R.POL_VEC[lab[1]]
            else:
                n = int(lab)
                if n < 0 or n >= d:
                    return None
                v = np.zeros(d, dtype=R.C)
                v[n] = 1
            self._rho = np.outer(v, v.conj())
        elif self.form == "vector":
            v = np.asarray(self.arr).astype(R.C).ravel()
            self._rho = np.outer(v, v.conj())
        else:
            self._rho = np.array(np.asarray(self.arr), dtype=R.C)
        return self._rho

    def key(self):
        return (self.kind, tuple(self.members), tuple(self.dims), self.level, self.form, self.digest)

    def layout_key(self):
        return (self.kind, tuple(self.members), self.level, self.form)


class Snapshot:
    def __init__(self):
        self.blocks = []
        self.where = {}  # sub name -> block index
        self.sub = {}  # sub name -> meta dict
        self.env = {}  # env name -> meta dict
        self.containers = []  # list of dict
        self.handle_container = {}  # ce name -> container index (or None)
        self.problems = []  # (property, code, detail)
        self.contraction = None
        self.too_big = False

    def live(self):
        return [n for n, m in self.sub.items() if not m["measured"]]

    def block_of(self, name):
        i = self.where.get(name)
        return None if i is None else self.blocks[i]

    def problem(self, prop, code, detail):
        self.problems.append((prop, code, detail))

    def tainted(self):
        return len(self.problems) > 0

    def layout_digest(self):
        m = hashlib.blake2b(digest_size=8)
        for b in sorted(self.blocks, key=lambda b: b.members):
            m.update(repr((b.kind, b.members, b.dims, b.level)).encode())
        return m.hexdigest()

    def store_of(self, name):
        b = self.block_of(name)
        if b is None:
            return "none"
        return {"own": "own", "env": "env", "ps": "ps%d" % min(len(b.members), 4)}[b.kind]

    def level_of(self, name):
        b = self.block_of(name)
        if b is None:
            return "none"
        return {"label": "L", "vector": "V", "matrix": "M", "bad": "bad"}[b.form]


def _is(lst, obj):
    return any(x is obj for x in lst)


def _count_is(lst, obj):
    return sum(1 for x in lst if x is obj)


def snapshot(world) -> Snapshot:
    from photon_weave.photon_weave import Config
    from photon_weave.state.composite_envelope import CompositeEnvelope
    from photon_weave.state.polarization import PolarizationLabel

    S = Snapshot()
    S.contraction = bool(Config().contractions)

    # ---------------------------------------------------------------- containers
    cont_objs = []  # container objects (identity)
    for cname, ce in world.ces.items():
        try:
            cont = CompositeEnvelope._containers[ce.uid]
        except Exception as e:  # KeyError
            S.problem("C13", "W13:handle-unresolved", f"{cname}: {type(e).__name__}")
            S.handle_container[cname] = None
            continue
        idx = None
        for i, c in enumerate(cont_objs):
            if c is cont:
                idx = i
        if idx is None:
            cont_objs.append(cont)
            idx = len(cont_objs) - 1
            S.containers.append(
                {"handles": [], "envelopes": [], "state_objs": [], "ps": [], "client": None}
            )
        S.containers[idx]["handles"].append(cname)
        S.handle_container[cname] = idx

    ps_place = {}  # sub name -> list of (container idx, ps idx, pos)
    ps_records = []  # (container idx, ps idx, ps obj, member names)
    for ci, cont in enumerate(cont_objs):
        rec = S.containers[ci]
        rec["client"] = world.client_of(rec["handles"][0])
        for e in cont.envelopes:
            en = world.name_of(e)
            if en is None:
                S.problem("C13", "W13:unknown-envelope", f"container {rec['handles']}")
            rec["envelopes"].append(en)
        names = [n for n in rec["envelopes"] if n is not None]
        if len(names) != len(set(names)):
            S.problem("C13", "W13:envelope-listed-twice", f"{rec['handles']}: {names}")
        so_names = [world.name_of(s) for s in cont.state_objs]
        rec["state_objs"] = so_names
        sn = [n for n in so_names if n is not None]
        if len(sn) != len(set(sn)):
            S.problem("C13", "W13:state-obj-listed-twice", f"{rec['handles']}: {sn}")
        seen_ps = []
        for pi, ps in enumerate(cont.states):
            if _is(seen_ps, ps):
                S.problem("C13", "W13:product-space-listed-twice", f"{rec['handles']} #{pi}")
                continue
            seen_ps.append(ps)
            members = []
            for so in ps.state_objs:
                members.append(world.name_of(so))
            if len(members) == 0:
                S.problem("C13", "W13:empty-product-space", f"{rec['handles']} #{pi}")
            if any(m is None for m in members):
                S.problem("C13", "W13:unknown-member", f"{rec['handles']} #{pi}")
            mm = [m for m in members if m is not None]
            if len(mm) != len(set(mm)):
                S.problem("C13", "W13:member-listed-twice", f"{rec['handles']} #{pi}: {mm}")
            rec["ps"].append(list(members))
            ps_records.append((ci, pi, ps, members))
            for pos, m in enumerate(members):
                if m is not None:
                    ps_place.setdefault(m, []).append((ci, pi, pos))

    # ---------------------------------------------------------------- subsystems
    for name in world.sub_names():
        so = world.sub(name)
        kind = world.kind(name)
        try:
            measured = bool(so.measured)
        except Exception:
            measured = False
        try:
            index = so.index
        except Exception as e:
            index = ("unreadable", type(e).__name__)
        st = so.state
        meta = {
            "kind": kind,
            "measured": measured,
            "index": index if not isinstance(index, list) else tuple(index),
            "level": _lvl(so.expansion_level),
            "dims": int(so.dimensions),
            "has_state": st is not None,
        }
        S.sub[name] = meta

    for en, env in world.envs.items():
        ceid = env.composite_envelope_id
        S.env[en] = {
            "measured": bool(env.measured),
            "has_state": env.state is not None,
            "level": _lvl(env._expansion_level) if hasattr(env, "_expansion_level") else None,
            "ce_id": ceid,
        }

    # ---------------------------------------------------------------- blocks
    # product spaces
    for ci, pi, ps, members in ps_records:
        if any(m is None for m in members) or len(members) == 0:
            continue
        dims = [S.sub[m]["dims"] for m in members]
        level = _lvl(ps.expansion_level)
        D = int(np.prod(dims)) if all(d > 0 for d in dims) else -1
        arr = ps.state
        form = array_form(arr, D, level) if D > 0 else "bad"
        blk = Block(
            "ps",
            "ps:%s#%d" % (S.containers[ci]["handles"][0], pi),
            members,
            dims,
            level,
            form,
            arr,
            client=S.containers[ci]["client"],
            container=ci,
            ps_index=pi,
        )
        S.blocks.append(blk)
    # envelopes
    for en, env in world.envs.items():
        if env.state is None:
            continue
        f, p = en + ".f", en + ".p"
        mem = []
        for n in (f, p):
            m = S.sub[n]
            if m["measured"] or m["has_state"] or n in ps_place:
                continue
            mem.append(n)
        idxs = [S.sub[n]["index"] for n in mem]
        ok = len(mem) == 2 and sorted(i if isinstance(i, int) else -9 for i in idxs) == [0, 1]
        if not ok:
            S.problem(
                "C13",
                "W13:envelope-block-members",
                f"{en}: state present, members {mem} indices {idxs}",
            )
            continue
        mem = sorted(mem, key=lambda n: S.sub[n]["index"])
        dims = [S.sub[n]["dims"] for n in mem]
        D = int(np.prod(dims)) if all(d > 0 for d in dims) else -1
        level = _lvl(env.expansion_level)
        form = array_form(env.state, D, level) if D > 0 else "bad"
        blk = Block("env", en, mem, dims, level, form, env.state, client=world.client_of(en))
        S.blocks.append(blk)
    # own states
    for name, meta in S.sub.items():
        if not meta["has_state"]:
            continue
        so = world.sub(name)
        st = so.state
        d = meta["dims"]
        level = meta["level"]
        if isinstance(st, PolarizationLabel):
            blk = Block("own", name, [name], [2], level, "label", ("pol", st.value))
        elif isinstance(st, (int, np.integer)) and not isinstance(st, bool):
            dd = d if d > 0 else int(st) + 1
            blk = Block("own", name, [name], [max(dd, 1)], level, "label", int(st))
            if int(st) < 0 or (d > 0 and int(st) >= d):
                S.problem("C07", "W07:label-out-of-range", f"{name}: label {st} dims {d}")
                blk.form = "bad"
        else:
            form = array_form(st, d, level) if d > 0 else "bad"
            blk = Block("own", name, [name], [d if d > 0 else 1], level, form, st)
        blk.client = world.client_of(name)
        S.blocks.append(blk)

    # where
    places = {}
    for bi, b in enumerate(S.blocks):
        for m in b.members:
            places.setdefault(m, []).append(bi)
    for name, meta in S.sub.items():
        pl = places.get(name, [])
        if meta["measured"]:
            if pl:
                S.problem("C13", "W13:measured-still-stored", f"{name} in {len(pl)} block(s)")
            continue
        if len(pl) == 0:
            S.problem("C13", "W13:stored-nowhere", name)
        elif len(pl) > 1:
            S.problem(
                "C13",
                "W13:stored-twice",
                f"{name}: " + ",".join(S.blocks[i].kind for i in pl),
            )
            S.where[name] = pl[0]
        else:
            S.where[name] = pl[0]

    _check_w07(S)
    _check_w13(S, world, cont_objs, ps_records)
    return S


# ------------------------------------------------------------------------------------------
def _check_w07(S: Snapshot):
    for b in S.blocks:
        tag = f"{b.kind}:{b.owner}"
        if b.form == "bad":
            shp = getattr(b.arr, "shape", None)
            S.problem("C07", "W07:shape", f"{tag} dims {b.dims} array {shp} level {b.level}")
            continue
        want = {"label": LABEL, "vector": VECTOR, "matrix": MATRIX}[b.form]
        if b.level != want:
            S.problem("C07", "W07:level-tag", f"{tag} holds {b.form} but level is {b.level}")
        if b.kind != "own":
            for m in b.members:
                if S.sub[m]["level"] != b.level:
                    S.problem(
                        "C07",
                        "W07:member-level",
                        f"{m} reports {S.sub[m]['level']} in {tag} at level {b.level}",
                    )
        if b.form == "label":
            continue
        if b.D > 2048:
            S.too_big = True  # numerics not evaluated on very large blocks; the run stops
            continue
        a = np.asarray(b.arr)
        if not np.all(np.isfinite(a)):
            S.problem("C07", "W07:nonfinite", tag)
            b.form = "bad"
            continue
        if b.form == "vector":
            n2 = float(np.sum(np.abs(a) ** 2))
            if abs(n2 - 1) > TOL_NORM:
                S.problem("C07", "W07:norm", f"{tag} |psi|^2 = {n2:.6g}")
        else:
            tr = complex(np.trace(a))
            if abs(tr - 1) > TOL_NORM:
                S.problem("C07", "W07:trace", f"{tag} tr = {tr.real:.6g}{tr.imag:+.2g}j")
            herm = float(np.max(np.abs(a - a.conj().T))) if a.size else 0.0
            if herm > TOL_HERM:
                S.problem("C07", "W07:hermiticity", f"{tag} |rho-rho^H| = {herm:.3g}")
            elif a.shape[0] > 2048:
                pass  # positivity not evaluated on very large blocks (cost); see evidence assumptions
            else:
                try:
                    w = np.linalg.eigvalsh((a + a.conj().T) / 2)
                    if w.min() < TOL_EIG:
                        S.problem("C07", "W07:positivity", f"{tag} min eig = {w.min():.3g}")
                except Exception:
                    S.problem("C07", "W07:eig-failed", tag)


def _check_w13(S: Snapshot, world, cont_objs, ps_records):
    from photon_weave.state.composite_envelope import CompositeEnvelope

    # (b) index names the place
    for name, meta in S.sub.items():
        if meta["measured"]:
            continue
        b = S.block_of(name)
        if b is None:
            continue
        idx = meta["index"]
        if b.kind == "own":
            if idx is not None:
                S.problem("C13", "W13:stale-index", f"{name} holds own state but index={idx}")
        elif b.kind == "env":
            pos = b.members.index(name)
            if idx != pos:
                S.problem("C13", "W13:stale-index", f"{name} at envelope position {pos}, index={idx}")
        else:
            pos = b.members.index(name)
            ci = b.container
            want = (b.ps_index, pos)
            if not (isinstance(idx, tuple) and tuple(idx) == want):
                S.problem("C13", "W13:stale-index", f"{name} stored at {want}, index={idx}")
            # back pointer
            so = world.sub(name)
            try:
                ce = so.composite_envelope
                ok = ce is not None and CompositeEnvelope._containers.get(ce.uid) is cont_objs[ci]
            except Exception:
                ok = False
            if not ok:
                S.problem("C13", "W13:back-pointer", f"{name} does not point to its composite")
    # (c) merged handles share a container
    classes = {}
    for h in world.ces:
        classes.setdefault(world.merge_root(h), []).append(h)
    for root, hs in classes.items():
        cs = {S.handle_container.get(h) for h in hs}
        if len(cs) > 1:
            S.problem("C13", "W13:merged-handles-diverge", f"{sorted(hs)} -> containers {sorted(map(str, cs))}")
    # (d) envelopes point back
    for ci, rec in enumerate(S.containers):
        for en in rec["envelopes"]:
            if en is None:
                continue
            env = world.envs[en]
            if env.measured:
                continue  # free (DESIGN 11.8)
            ceid = env.composite_envelope_id
            ok = False
            try:
                if ceid is not None:
                    ok = CompositeEnvelope._containers.get(ceid) is cont_objs[ci]
            except Exception:
                ok = False
            if not ok:
                S.problem("C13", "W13:envelope-back-pointer", f"{en} listed in {rec['handles']} but points elsewhere")
    for en, env in world.envs.items():
        ceid = env.composite_envelope_id
        if ceid is None:
            continue
        try:
            inst = CompositeEnvelope._instances[ceid][0]
            cont = CompositeEnvelope._containers[ceid]
            listed = _is(cont.envelopes, env)
            if inst is None:
                raise KeyError
        except Exception as e:
            S.problem("C13", "W13:envelope-ce-unresolved", f"{en}: {type(e).__name__}")
            continue
        if not listed:
            S.problem("C13", "W13:envelope-not-listed", f"{en} points to a composite that does not list it")
    # (f) clients are disjoint
    for ci, rec in enumerate(S.containers):
        cl = {world.client_of(h) for h in rec["handles"]}
        for en in rec["envelopes"]:
            if en is not None:
                cl.add(world.client_of(en))
        for sn in rec["state_objs"]:
            if sn is not None:
                cl.add(world.client_of(sn))
        if len(cl) > 1:
            S.problem("C13", "W13:clients-share-container", f"{rec['handles']}: clients {sorted(map(str, cl))}")


# ------------------------------------------------------------------------------------------
# joint states and comparisons
# ------------------------------------------------------------------------------------------
def components(blocks_a, blocks_b):
    """Connected components of the 'shares a subsystem' graph over two block lists.
    Returns list of (sorted member names, [blocks of a], [blocks of b])."""
    parent = {}

    def find(x):
        while parent.get(x, x) != x:
            parent[x] = parent.get(parent[x], parent[x])
            x = parent[x]
        return x

    def union(x, y):
        rx, ry = find(x), find(y)
        if rx != ry:
            parent[ry] = rx

    for b in list(blocks_a) + list(blocks_b):
        for m in b.members:
            parent.setdefault(m, m)
        for m in b.members[1:]:
            union(b.members[0], m)
    comps = {}
    for m in parent:
        comps.setdefault(find(m), set()).add(m)
    out = []
    for root, mem in comps.items():
        ba = [b for b in blocks_a if b.members and find(b.members[0]) == root]
        bb = [b for b in blocks_b if b.members and find(b.members[0]) == root]
        out.append((sorted(mem), ba, bb))
    out.sort(key=lambda t: t[0])
    return out


def joint(blocks, order=None):
    """Joint density matrix of a list of blocks, factors in `order` (default: sorted names).
    Returns (rho, names, dims) or (None, names, dims) if some block is malformed."""
    names, dims, rhos = [], [], []
    for b in blocks:
        r = b.rho()
        names.extend(b.members)
        dims.extend(b.dims)
        rhos.append(r)
    if order is None:
        order = sorted(names)
    if any(r is None for r in rhos):
        return None, list(order), [dims[names.index(n)] for n in order if n in names]
    rho = R.kron_all(rhos)
    perm = [names.index(n) for n in order]
    rho, nd = R.permute(rho, dims, perm)
    return rho, list(order), nd
