"""
Process bootstrap: must be imported first by every worker.

* pins XLA to one thread (bit-reproducible float reductions),
* puts the repository under test first on sys.path ($VERIF_REPO, default /repo),
* installs the seams, imports photon_weave, wraps Config,
* points JAX's persistent compilation cache at /verif/.cache/jax (keyed on the XLA
  computation, never on /repo sources: it cannot hide a source change).
"""

from __future__ import annotations

import os
import sys

VERIF_DIR = os.path.dirname(os.path.dirname(os.path.abspath(__file__)))
REPO = os.environ.get("VERIF_REPO", "/repo")
GUARD = "PHOTON_WEAVE_VERIF"

_BOOT = {"done": False}


def worker_environ(base=None) -> dict:
    env = dict(os.environ if base is None else base)
    env["PYTHONHASHSEED"] = env.get("VERIF_HASHSEED", "0")
    flags = env.get("XLA_FLAGS", "")
    for f in (
        "--xla_cpu_multi_thread_eigen=false",
        "intra_op_parallelism_threads=1",
        "--xla_backend_optimization_level=0",
    ):
        if f.split("=")[0] not in flags:
            flags = (flags + " " + f).strip()
    env["XLA_FLAGS"] = flags
    env["OMP_NUM_THREADS"] = "1"
    env["OPENBLAS_NUM_THREADS"] = "1"
    env["MKL_NUM_THREADS"] = "1"
    env["JAX_PLATFORMS"] = "cpu"
    env["JAX_ENABLE_X64"] = "1"
    env[GUARD] = "1"
    env["VERIF_REPO"] = REPO
    pp = [REPO, VERIF_DIR]
    env["PYTHONPATH"] = os.pathsep.join(pp)
    env["PYTHONDONTWRITEBYTECODE"] = "1"
    return env


def boot():
    """Install seams, import photon_weave from REPO. Idempotent."""
    if _BOOT["done"]:
        return
    os.environ.setdefault("JAX_PLATFORMS", "cpu")
    os.environ.setdefault("OMP_NUM_THREADS", "1")
    if "XLA_FLAGS" not in os.environ:
        os.environ["XLA_FLAGS"] = (
            "--xla_cpu_multi_thread_eigen=false intra_op_parallelism_threads=1 "
            "--xla_backend_optimization_level=0"
        )
    if REPO in sys.path:
        sys.path.remove(REPO)
    sys.path.insert(0, REPO)
    import logging

    logging.disable(logging.CRITICAL)
    from sim import seams

    seams.install()
    import jax

    jax.config.update("jax_enable_x64", True)
    cache = os.environ.get("VERIF_JAX_CACHE", os.path.join(VERIF_DIR, ".cache", "jax"))
    if cache and cache != "off":
        try:
            os.makedirs(cache, exist_ok=True)
            jax.config.update("jax_compilation_cache_dir", cache)
            jax.config.update("jax_persistent_cache_min_compile_time_secs", 0)
            jax.config.update("jax_persistent_cache_min_entry_size_bytes", -1)
        except Exception:
            pass
    import photon_weave  # noqa: F401

    pw_file = os.path.abspath(photon_weave.__file__ or "")
    if not pw_file.startswith(os.path.abspath(REPO) + os.sep):
        raise RuntimeError(f"HARNESS: photon_weave imported from {pw_file}, expected under {REPO}")
    seams.wrap_config()
    _BOOT["done"] = True
