"""
C17 thorough tier: fault enumeration.

For a sampled fault-free program: record its trace, then re-execute it and, before every step,
fire EVERY applicable fault kind on every applicable target and entry point, back to back.
A correctly rejected call leaves the world as it was, so the faulted execution must reproduce
the fault-free trace step for step (bounded recovery: progress resumes at the very next step).
Positions x kinds x targets are enumerated; only the programs are sampled.
"""

from __future__ import annotations

import copy
import time

from sim import actions, alpha, gen, oracles, runner, seams, twins
from sim.oracles import Violation
from sim.world import World, reset_library


DEADLINE = None  # set by the worker: enumeration of the current program ends there (what was injected stays checked)


def backend_bound(pre, r):
    """True when the program's own step would make the library build a 3-operand einsum of rank >= 8
    in REAL dtype (a product space of four or more members, none of them complex, at matrix level,
    or about to be taken there by a channel / POVM): XLA's CPU compiler needs minutes for it
    (DESIGN 15.2). The generator keeps fault-free programs clear of that case; in the enumeration a
    rejected call may have expanded a real-valued scenario prefix (GHZ and the like) to matrix
    level first. A bound on what is enumerated, never a verdict."""
    on = r.get("on") or ([r["sub"]] if r.get("sub") else [])
    if r.get("do") not in ("op", "kraus", "povm") or not on:
        return False
    blocks = []
    for n in on:
        try:
            b = pre.block_of(n)
        except Exception:
            b = None
        if b is not None and not any(b is x for x in blocks):
            blocks.append(b)
    members = sum(len(b.members) for b in blocks)
    if members <= 3:
        return False
    for b in blocks:
        dt = getattr(b.arr, "dtype", None)
        if dt is not None and dt.kind == "c":
            return False
    return r["do"] in ("kraus", "povm") or any(b.form == "matrix" or b.level == alpha.MATRIX for b in blocks)


def candidates(world, pre):
    out = []
    subs = [n for n in world.sub_names()]
    live = [n for n in subs if actions._live(pre, n)]
    dead = [n for n in subs if pre.sub[n]["measured"]]

    def entries(sub):
        es = [("state", {})]
        e = world.env_of(sub)
        if e and not pre.env[e]["measured"]:
            es.append(("env", {"env": e}))
        h = world.ce_of.get(sub.split(".")[0])
        if h:
            es.append(("ce", {"ce": h}))
        return es

    out.append({"do": "fault", "kind": "missing_param"})
    for n in live:
        k = world.kind(n)
        for entry, extra in entries(n):
            base = {"do": "fault", "on": [n], "entry": entry, **extra}
            out.append({**base, "kind": "kraus_not_tp", "how": "scale", "seed": 3})
            out.append({**base, "kind": "kraus_not_tp", "how": "drop", "seed": 4})
            out.append({**base, "kind": "kraus_not_tp", "how": "imag", "eps": 0.3, "single": True, "seed": 4})
            out.append({**base, "kind": "kraus_not_tp", "how": "offdiag", "eps": 1e-2, "seed": 5})
            out.append({**base, "kind": "kraus_not_tp", "how": "diag1", "eps": 1e-4, "seed": 6})
            out.append({**base, "kind": "kraus_wrong_shape", "delta": 1, "seed": 3})
            out.append({**base, "kind": "povm_wrong_shape", "delta": 1, "seed": 3})
            out.append({**base, "kind": "kraus_wrong_shape", "shape": "tall", "seed": 3})
            out.append({**base, "kind": "kraus_wrong_shape", "shape": "mixed", "seed": 3})
            out.append({**base, "kind": "povm_wrong_shape", "shape": "tall", "seed": 3})
            out.append({**base, "kind": "povm_wrong_shape", "shape": "wide", "seed": 3})
            out.append({**base, "kind": "povm_wrong_shape", "shape": "mixed", "seed": 3})
            out.append({**base, "kind": "kraus_wrong_shape", "shape": "empty", "seed": 3})
            out.append({**base, "kind": "povm_wrong_shape", "shape": "empty", "seed": 3})
            if k in ("P", "C"):
                out.append({**base, "kind": "custom_op_wrong_shape"})
            if k in ("P", "F"):
                out.append({**base, "kind": "wrong_kind", "how": "single"})
            if k == "F":
                out.append({**base, "kind": "annihilate_vacuum", "how": "builtin"})
                out.append({**base, "kind": "annihilate_vacuum", "how": "custom"})
                out.append({**base, "kind": "shrink_below_support", "below": 0})
        e = world.env_of(n)
        for e2 in world.envs:
            if e2 != e and e is not None and world.client_of(e2) == world.client_of(n) and not pre.env[e2]["measured"]:
                for how in ("env.kraus", "env.povm", "env.reorder"):
                    out.append({"do": "fault", "kind": "outside_container", "how": how, "on": [n], "entry": "env", "env": e2})
                break
    for h in world.ces:
        ins = [n for n in live if actions._in_class(world, n, h)]
        outs = [n for n in live if not actions._in_class(world, n, h) and world.client_of(n) == world.client_of(h)]
        pin = [n for n in ins if world.kind(n) == "P"]
        pout = [n for n in outs if world.kind(n) == "P"]
        fout = [n for n in outs if world.kind(n) == "F"]
        if pin and pout:
            out.append({"do": "fault", "kind": "outside_container", "how": "ce.op2", "on": [pin[0], pout[0]], "entry": "ce", "ce": h})
        if fout:
            out.append({"do": "fault", "kind": "outside_container", "how": "ce.resize", "on": [fout[0]], "entry": "ce", "ce": h})
        if len(ins) >= 2:
            mixed = [n for n in ins if world.kind(n) != "P"]
            if mixed and pin:
                out.append({"do": "fault", "kind": "wrong_kind", "how": "composite", "on": [mixed[0], pin[0]], "entry": "ce", "ce": h})
        break
    for n in dead:
        for entry, extra in [("state", {}), ("env", {"env": world.env_of(n)})] + ([("ce", {"ce": world.ce_of[n.split(".")[0]]})] if world.ce_of.get(n.split(".")[0]) else []):
            for how in ("op", "kraus", "measure", "povm"):
                out.append({"do": "fault", "kind": "use_destroyed", "how": how, "on": [n], "entry": entry, **extra})
            if entry != "state":
                out.append({"do": "fault", "kind": "use_destroyed", "how": "combine", "on": [n], "entry": entry, **extra})
            if entry == "ce":
                for other in live:
                    if other != n and actions._in_class(world, other, extra["ce"]):
                        out.append({"do": "fault", "kind": "use_destroyed", "how": "measure2", "on": [n, other], "entry": "ce", **extra})
                        out.append({"do": "fault", "kind": "use_destroyed", "how": "op2", "on": [n, other], "entry": "ce", **extra})
                        break
    ok = []
    for r in out:
        a, _ = actions.applicable(world, pre, r)
        if a:
            ok.append(r)
    return ok


def _compare_step(r, pre, post, res, pre0, post0, res0, world=None, world0=None):
    """A program step after rejected calls against the same step of the fault-free trace.
    Returns None (equal), "stop" (the fault-free trace is no reference from here on) or a description."""
    spec = (res.info or {}).get("spec") or {}
    if r["do"].endswith(".contract") and float(r.get("tol") or 0.0) > 1e-6:
        # an explicit contraction with the caller's own tolerance may change the state by that much, and
        # by how much depends on the block layout a rejected call may have changed: no reference afterwards
        return "stop"
    if r["do"] in ("measure", "povm") and res.status == "ok" and res0.status == "ok" and world is not None:
        if runner.ret_digest(world, res.ret) != runner.ret_digest(world0, res0.ret):
            # a rejected call may legitimately have changed the tensor order of a product space, and
            # with it the order in which the members are drawn; the forced outcomes are keyed by draw
            # position, so the two executions may take different (equally legitimate) branches. The
            # states were equal before this step: judge the step by itself, then stop comparing
            vs = oracles.check_step(world, pre, post, r, res)
            if vs:
                return f"outcomes differ from the fault-free trace and the step is wrong by itself: {vs[0].failure}: {vs[0].detail[:120]}"
            return "stop"
    if r["do"] == "op" and (spec.get("t") in ("F.Displace", "F.Squeeze") or spec.get("form") in ("rot", "bs")):
        # the truncated form of these operators depends on the cut-off the library chooses, which
        # depends on the representation level a rejected call may legitimately have changed
        # (known finding KF-C10-estimator-accuracy)
        return "stop"
    if "skipped" in (res.status, res0.status) and res.status != res0.status:
        # applicability depends on the representation level and on bookkeeping a rejected call may
        # legitimately have changed (it may have combined its operands): a physically neutral step that
        # ran on one side only must leave the states equal; any other step means the two executions
        # are different programs from here on
        if r["do"] in twins.NEUTRAL:
            return twins.snapshot_diff(post0, post)
        return "stop"
    if res.status != res0.status:
        return f"status {res0.status}/{res0.exc} -> {res.status}/{res.exc}"
    if r["do"] == "povm" and world is not None:
        # whether the envelope partner of a POVM target survives depends on whether the envelope is
        # combined (not pinned by the statements, 11.5), which a rejected call may have changed
        live = lambda snap: {n for n, m in snap.sub.items() if not m["measured"]}
        partners = {world.partner(n) for n in r.get("on", [])} - {None}
        d = live(post) ^ live(post0)
        if d and d <= partners:
            return "stop"
    if r["do"] in ("kraus", "povm") and [pre.sub[n]["dims"] for n in r["on"]] != [pre0.sub[n]["dims"] for n in r["on"]]:
        return "stop"  # the operator set is resolved at the current cut-off: different channel
    return twins.snapshot_diff(post0, post)


def continuation_violations(cfg, recipes):
    """Replay form of the continuation check: the recorded list holds program steps and injected
    rejected calls (sid >= 10**6); the program steps must behave as they do without the injections."""
    inj = lambda r: r["do"] == "fault" and r.get("sid", 0) >= 10**6
    prog = [r for r in recipes if not inj(r)]
    if len(prog) == len(recipes) or not prog:
        return []
    base = runner.execute_run(dict(cfg), recipes=copy.deepcopy(prog), keep_snapshots=True, stop_on_taint=False)
    full = runner.execute_run(dict(cfg), recipes=copy.deepcopy(recipes), keep_snapshots=True, stop_on_taint=False)
    ib = {r["sid"]: k for k, r in enumerate(base.recipes)}
    ninj = 0
    for k, r in enumerate(full.recipes):
        if k >= len(full.snapshots):
            break
        if inj(r):
            ninj += 1
            continue
        if r["sid"] not in ib or ib[r["sid"]] >= len(base.snapshots):
            break
        pre, post, res = full.snapshots[k]
        pre0, post0, res0 = base.snapshots[ib[r["sid"]]]
        bad = _compare_step(r, pre, post, res, pre0, post0, res0, full.world, base.world)
        if bad == "stop":
            break
        if bad is not None:
            cell = oracles.make_cell(full.world, pre, r, res.addressed)
            v = Violation(["C17"], "continuation", "continuation-diverged", cell, f"after {ninj} rejected calls, step (sid {r['sid']}): {bad}")
            v.sid = r["sid"]
            return [v.to_json()]
    return []


def _inject_run(cfg, recipes, base, rr_out, limit_per_pos=80, only=None):
    """Re-execute `recipes`, injecting faults before every step. Returns violations (json)."""
    seed = int(cfg.get("seed", 0))
    reset_library(contraction=cfg.get("contraction", True), seed=cfg.get("lib_seed", 1))
    ctx = {"sid": None, "nondeg": 0, "forced": None}
    seams.reset(mode="forced", chooser=runner.make_chooser(seed, ctx))
    world = World()
    world.op_specs = cfg.get("ops", {})
    pre = alpha.snapshot(world)
    viols = []
    injections = 0
    fsid = 10**6
    executed = []  # everything that ran so far: a rejected call may change representation levels
    for j, r in enumerate(recipes):
        if DEADLINE is not None and time.time() > DEADLINE:
            return viols, injections
        cands = candidates(world, pre)
        if len(cands) > limit_per_pos:
            # bounded work per position: a window that moves with the position, so that every
            # candidate is reached at some position of a long enough program
            k0 = (j * limit_per_pos) % len(cands)
            cands = (cands + cands)[k0 : k0 + limit_per_pos]
        for f in cands:
            fsid += 1
            f = dict(f)
            f["sid"] = fsid
            f["client"] = world.client_of(f["on"][0]) if f.get("on") else 0
            ctx["sid"], ctx["nondeg"] = fsid, 0
            seams.take_draws()
            res = actions.execute(world, pre, f)
            res.draws = seams.take_draws()
            post = alpha.snapshot(world)
            if res.status == "skipped":
                continue
            injections += 1
            k = f["kind"]
            st = rr_out.fault_stats.setdefault(k, {"fired": 0, "rejected": 0})
            st["fired"] += 1
            if res.status == "raised" or (k == "shrink_below_support" and not res.info.get("returned")):
                st["rejected"] += 1
            vs = oracles.check_step(world, pre, post, f, res)
            vs = [v for v in vs if "C17" in v.props or v.oracle == "invariant"]
            if vs:
                for v in vs:
                    v.sid = fsid
                    if "C17" not in v.props:
                        v.props.append("C17")
                    vj = v.to_json()
                    vj["enum_replay"] = copy.deepcopy(executed) + [f]
                    viols.append(vj)
                return viols, injections
            executed.append(f)
            pre = post
        # the program's own step
        if injections and backend_bound(pre, r):
            rr_out.probes["enum_stopped_at_backend_bound"] = rr_out.probes.get("enum_stopped_at_backend_bound", 0) + 1
            return viols, injections
        ctx["sid"], ctx["nondeg"] = r["sid"], 0
        seams.take_draws()
        res = actions.execute(world, pre, dict(r))
        res.draws = seams.take_draws()
        post = alpha.snapshot(world)
        pre0, post0, res0 = base.snapshots[j]
        bad = _compare_step(r, pre, post, res, pre0, post0, res0, world, base.world)
        if bad == "stop":
            return viols, injections
        if bad is not None:
            cell = oracles.make_cell(world, pre, r, res.addressed)
            v = Violation(["C17"], "continuation", "continuation-diverged", cell, f"after {injections} rejected calls, step {j} (sid {r['sid']}): {bad}")
            v.sid = r["sid"]
            vj = v.to_json()
            vj["enum_replay"] = copy.deepcopy(executed) + [copy.deepcopy(r)]
            viols.append(vj)
            return viols, injections
        executed.append(r)
        pre = post
    return viols, injections


def run_program(seed, tier):
    g = gen.Gen(seed, "C17", tier="quick", overrides={"fault_rate": 0.0, "wide_rate": 0.0})
    g.fault_rate = 0.0
    g.max_steps = min(g.max_steps, 16 + len(g.queue))
    cfg = {"seed": seed, "contraction": g.contraction, "ops": g.ops, "mode": "forced", "lib_seed": seed % 1000 + 1, "debuglog": g.debuglog}
    base = runner.execute_run(cfg, gen=g, keep_snapshots=True)
    cfg_json = dict(cfg)
    cfg_json["ops"] = dict(g.ops)
    rec = {"seed": seed, "profile": "C17-enum", "steps": base.steps, "checked": base.checked, "digest": base.digest, "harness": base.harness_error, "violations": [], "cfg": cfg_json, "recipes": base.recipes, "injections": 0}
    if base.stopped == "taint":
        # a malformed fault-free world is some other property's finding; nothing to enumerate
        return rec, base
    viols, inj = _inject_run(cfg_json, base.recipes, base, base)
    rec["injections"] = inj
    for vj in viols:
        rp = vj.pop("enum_replay")
        vj["recipes_override"] = rp
        rec["violations"].append(vj)
    if viols:
        rec["recipes"] = viols[0]["recipes_override"]
    return rec, base
