"""Deterministic simulation with fault injection for tqsd/photon_weave (see /verif/DESIGN.md)."""
