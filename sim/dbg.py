"""Debug helper: run one seed verbosely, stop at first violation matching a substring and print traceback of raised steps."""
import sys, json, traceback
from sim import env
env.boot()
from sim import gen, runner, actions
prof, sd = sys.argv[1], int(sys.argv[2])
pat = sys.argv[3] if len(sys.argv)>3 else None
orig = actions._execute
def wrapped(world, pre, r, do):
    if "-p" in sys.argv: print("  >>", json.dumps(r, default=str), flush=True)
    try:
        return orig(world, pre, r, do)
    except Exception:
        print("---- raised at", json.dumps(r, default=str)); traceback.print_exc(limit=6); raise
actions._execute = wrapped
import os, time
g = gen.Gen(sd, prof, overrides=({"scenario": os.environ["VERIF_SCEN"]} if os.environ.get("VERIF_SCEN") else None))
T0=[time.time()]
cfg = {"seed": sd, "contraction": g.contraction, "ops": g.ops}
def hook(world, pre, post, r, res, viols):
    t=time.time(); print(f"[{t-T0[0]:.1f}s]", end=" "); T0[0]=t
    print(r["sid"], json.dumps({k:v for k,v in r.items() if k not in ("sid","client")}, default=str), "->", res.status, res.exc or "", runner.ret_digest(world,res.ret) if res.status=="ok" else "")
    for v in viols:
        print("     !!", v.props, v.oracle, v.failure, v.detail)
    for b in post.blocks:
        if b.D > 64: print("     big block", b.kind, b.members, b.dims, b.form, flush=True)
rr = runner.execute_run(cfg, gen=g, step_hook=hook)
print("ops", json.dumps(g.ops))
