import sys, json, time
from sim import env
env.boot()
from sim import gen, runner
prof = sys.argv[1]; seeds = range(int(sys.argv[2]), int(sys.argv[3]))
t0=time.time(); tot=0; sigs={}
for sd in seeds:
    g = gen.Gen(sd, prof)
    cfg = {"seed": sd, "contraction": g.contraction, "ops": g.ops}
    rr = runner.execute_run(cfg, gen=g)
    tot += rr.steps
    for v in rr.violations:
        k=(tuple(v.props), v.oracle, v.failure, v.cell["action"], v.cell["type"], v.cell["entry"], tuple(v.cell["stores"]), tuple(v.cell["levels"]))
        sigs.setdefault(k, []).append((sd, v.sid, v.detail))
    if rr.harness_error: print("HARNESS", rr.harness_error)
    if '-v' in sys.argv:
        for e in rr.events: print(e["sid"], e["do"], e["st"], e["exc"], e["ret"], e["v"][:1])
print("steps", tot, "time %.1f"%(time.time()-t0))
for k, lst in sorted(sigs.items(), key=lambda kv: -len(kv[1])):
    print(len(lst), k, "e.g.", lst[0])
