"""
Worker process: explores a slice of seeds for one property check and writes JSON lines.

  python -m sim.worker explore --prop C01 --tier quick --seed0 N --stride K --offset I
                               --deadline T --max-runs M --out FILE
  python -m sim.worker replay  --file F          (prints one JSON line)
  python -m sim.worker shrink  --file F --out G  (delta-debugs a failing op list)
"""

from __future__ import annotations

import argparse
import faulthandler
import glob
import json
import os
import sys
import time

from sim.core import hash_s, replay_file, run_seed


def cmd_explore(a):
    from sim import env

    env.boot()
    faulthandler.enable()
    t_end = time.time() + a.deadline
    # work floor: a slow or cold machine (empty XLA cache after a fresh restore) keeps going past the
    # time budget until `--min-runs` runs are done, but never past the hard deadline
    t_hard = time.time() + max(a.deadline, a.hard_deadline or 0)
    from sim import core as _core
    from sim import enumerate_faults as _ef

    n = 0

    def below_floor():
        """The floor is a total over all workers of the phase: every worker publishes its run count
        next to its output file and reads the others' (a worker with expensive runs does not hold
        the others to a share it cannot reach, and is not held itself)."""
        if not a.min_runs:
            return False
        total = 0
        for fn in glob.glob(os.path.join(os.path.dirname(a.out) or ".", "*.nruns")):
            try:
                total += int(open(fn).read().strip() or 0)
            except Exception:
                pass
        return total < a.min_runs

    def publish():
        if a.min_runs:
            with open(a.out + ".nruns.tmp", "w") as cf:
                cf.write(str(agg["runs"]))
            os.replace(a.out + ".nruns.tmp", a.out + ".nruns")

    agg = {"cells": set(), "nontrivial": set(), "faults": {}, "perturb": {}, "probes": {}, "branches": 0, "rare": 0, "interleavings": set(), "shapes": set(), "steps": 0, "checked": 0, "runs": 0, "twin_steps": 0, "enum_injections": 0}
    with open(a.out, "w") as f:
        k = a.offset
        while n < a.max_runs and (time.time() < t_end or (below_floor() and time.time() < t_hard)):
            # runs below the floor are complete runs (optional twins, full enumeration) up to the hard deadline
            dl = t_hard if (a.min_runs and time.time() >= t_end) else t_end
            _core.DEADLINE = dl
            _ef.DEADLINE = dl + 15
            if time.time() >= t_end:
                agg["late_runs"] = agg.get("late_runs", 0) + 1
            seed = a.seed0 + k
            k += a.stride
            n += 1
            with open(a.out + ".cur", "w") as cf:
                cf.write(str(seed))
            if os.environ.get("VERIF_SLOW_DUMP"):  # debugging aid: where is a run stuck (cold XLA compiles)
                faulthandler.dump_traceback_later(float(os.environ["VERIF_SLOW_DUMP"]), repeat=True)
            else:
                faulthandler.dump_traceback_later(900, exit=True)
            try:
                if a.enum:
                    from sim import enumerate_faults

                    rec, rr = enumerate_faults.run_program(seed, a.tier)
                else:
                    rec, rr = run_seed(a.prop, seed, a.tier, profile=a.profile, overrides=wide_slot(a, n))
            except Exception as e:  # harness failure: never a violation
                import traceback

                f.write(json.dumps({"seed": seed, "harness": "HARNESS:" + type(e).__name__ + ":" + str(e)[:200], "tb": traceback.format_exc()[-1500:]}) + "\n")
                f.flush()
                continue
            finally:
                faulthandler.cancel_dump_traceback_later()
            agg["runs"] += 1
            publish()
            if rr.slowest[0] > agg.get("slowest", (0,))[0]:
                agg["slowest"] = (round(rr.slowest[0], 1), seed, rr.slowest[1], rr.slowest[2], g_ops(rec))
            agg["steps"] += rr.steps
            agg["checked"] += rr.checked
            agg["twin_steps"] += rec.get("twin_steps", 0)
            agg["enum_injections"] += rec.get("injections", 0)
            agg["cells"] |= rr.cells
            agg["nontrivial"] |= rr.nontrivial_cells
            agg["branches"] += rr.branches
            agg["rare"] += rr.rare_branches
            agg["interleavings"].add(",".join(map(str, rr.interleaving)))
            agg["shapes"] |= rr.shapes
            for kk, v in rr.fault_stats.items():
                s = agg["faults"].setdefault(kk, {"fired": 0, "rejected": 0})
                s["fired"] += v["fired"]
                s["rejected"] += v["rejected"]
            for kk, v in rr.perturb_stats.items():
                agg["perturb"][kk] = agg["perturb"].get(kk, 0) + v
            for kk, v in rr.probes.items():
                agg["probes"][kk] = agg["probes"].get(kk, 0) + v
            slim = {"seed": rec["seed"], "profile": rec.get("profile"), "steps": rec["steps"], "digest": rec["digest"], "harness": rec.get("harness")}
            if rec["violations"] or rec.get("harness"):
                slim.update({"violations": rec["violations"], "cfg": rec["cfg"], "recipes": rec["recipes"], "profile": rec.get("profile")})
            elif n <= 2:
                slim.update({"sample_recipes": rec["recipes"][:40], "cfg": {k2: v2 for k2, v2 in rec["cfg"].items() if k2 != "ops"}})
            slim["n_other"] = len(rec.get("other_violations", []))
            f.write(json.dumps(slim, default=str) + "\n")
            f.flush()
        summ = {
            "summary": True,
            "runs": agg["runs"],
            "steps": agg["steps"],
            "checked": agg["checked"],
            "twin_steps": agg["twin_steps"],
            "enum_injections": agg["enum_injections"],
            "cells": sorted(agg["cells"]),
            "nontrivial": sorted(agg["nontrivial"]),
            "faults": agg["faults"],
            "perturb": agg["perturb"],
            "probes": agg["probes"],
            "branches": agg["branches"],
            "rare": agg["rare"],
            "interleavings": len(agg["interleavings"]),
            "interleaving_hashes": sorted(hash_s(x) for x in agg["interleavings"]),
            "shapes": sorted(agg["shapes"]),
            "slowest": agg.get("slowest"),
            "late_runs": agg.get("late_runs", 0),
        }
        f.write(json.dumps(summ) + "\n")


def wide_slot(a, n):
    """Large product spaces (the `wide` scenario, 20-45 s per run) are scheduled, not drawn: the first
    run of every fourth worker (so that a quick check does not overrun its budget), plus every 25th
    run of every worker in the thorough tier. Twin-run properties execute every run several times
    and do without."""
    if a.prop in ("C08", "C14", "C15", "C18") or os.environ.get("VERIF_NO_WIDE"):
        return None
    first = n == 1 and a.offset % 4 == 0
    if first or (a.tier == "thorough" and n % 25 == 0):
        slot = (a.offset // 4) + n
        if slot % 2 == 0:
            return {"scenario": "long"}  # 25-29 members of tiny dimension, about 15 s
        big = slot % 4 == 1 and a.deadline >= 40  # 2048 dimensions: about 45 s
        return {"scenario": "wide", "wide_size": "big" if big else "small"}
    return None


def g_ops(rec):
    try:
        return rec["cfg"]["ops"]
    except Exception:
        return None


def cmd_replay(a):
    from sim import env

    env.boot()
    ok, viols, rp = replay_file(a.file, a.prop)
    print(json.dumps({"reproduced": ok, "violations": viols[:40], "property": a.prop or rp["property"], "id": rp.get("id")}, default=str))


def cmd_shrink(a):
    from sim import env

    env.boot()
    from sim import shrink

    with open(a.file) as f:
        job = json.load(f)
    res = shrink.minimise(job)
    with open(a.out, "w") as f:
        json.dump(res, f, indent=1, default=str)
    print(json.dumps({"steps_before": len(job["steps"]), "steps_after": len(res["steps"])}))


def main():
    ap = argparse.ArgumentParser()
    sub = ap.add_subparsers(dest="cmd")
    e = sub.add_parser("explore")
    e.add_argument("--prop", required=True)
    e.add_argument("--profile", default=None)
    e.add_argument("--tier", default="quick")
    e.add_argument("--seed0", type=int, required=True)
    e.add_argument("--stride", type=int, default=1)
    e.add_argument("--offset", type=int, default=0)
    e.add_argument("--deadline", type=float, default=50)
    e.add_argument("--max-runs", type=int, default=10**9)
    e.add_argument("--min-runs", type=int, default=0)
    e.add_argument("--hard-deadline", type=float, default=0)
    e.add_argument("--enum", action="store_true")
    e.add_argument("--out", required=True)
    r = sub.add_parser("replay")
    r.add_argument("--file", required=True)
    r.add_argument("--prop", default=None)
    s = sub.add_parser("shrink")
    s.add_argument("--file", required=True)
    s.add_argument("--out", required=True)
    a = ap.parse_args()
    if a.cmd == "explore":
        cmd_explore(a)
    elif a.cmd == "replay":
        cmd_replay(a)
    elif a.cmd == "shrink":
        cmd_shrink(a)
    else:
        ap.print_help()
        sys.exit(2)


if __name__ == "__main__":
    main()
