"""
Per-step oracles (DESIGN 3.3, 4, 5).

``check_step(world, pre, post, recipe, result)`` returns a list of Violation objects.
Each violation names the properties it is evidence against, the oracle, a failure class and
a finite *cell* descriptor (where it happened) used for signatures and known-finding patterns.
"""

from __future__ import annotations

import itertools

import numpy as np

from sim import alpha, seams
from sim import refmodel as R
from sim import specs
from sim.alpha import _digest

TOL = 1e-7
TOL_CONTRACT = 2e-6
TOL_P = 2e-6  # as TOL_CONTRACT: a contraction between two draws of one call may round at 1e-6
MAX_DIM = 2048


class Violation:
    __slots__ = ("props", "oracle", "failure", "cell", "detail", "sid", "step")

    def __init__(self, props, oracle, failure, cell, detail):
        self.props = list(props)
        self.oracle = oracle
        self.failure = failure
        self.cell = dict(cell)
        self.cell["failure"] = failure
        self.cell["oracle"] = oracle
        self.detail = detail
        self.sid = None
        self.step = None

    def signature(self):
        return (self.oracle, tuple(sorted((k, _canon(v)) for k, v in self.cell.items())))

    def to_json(self):
        return {
            "props": self.props,
            "oracle": self.oracle,
            "failure": self.failure,
            "cell": self.cell,
            "detail": self.detail,
            "sid": self.sid,
            "step": self.step,
        }


def _canon(v):
    if isinstance(v, (list, tuple)):
        return tuple(_canon(x) for x in v)
    return v


# ------------------------------------------------------------------------------------------
# cell descriptor
# ------------------------------------------------------------------------------------------
def action_type(world, r):
    do = r["do"]
    if do == "op":
        from sim.actions import op_spec

        sp = op_spec(world, r) or {}
        t = sp.get("t", "?")
        if "form" in sp:
            t += ":" + sp["form"]
        if sp.get("u"):
            t += ":" + sp["u"]
        return t
    if do == "kraus":
        ch = r["ch"]
        n = ch.get("n", "")
        return f"{ch['family']}{n}"
    if do == "povm":
        m = r["m"]
        return f"{m['family']}{m.get('n', '')}"
    if do == "fault":
        return r["kind"] + (":" + r["how"] if "how" in r else "") + (":" + r["shape"] if r.get("shape", "square") != "square" else "")
    if do == "resize":
        return "resize"
    return do


def make_cell(world, pre, r, S):
    do = r["do"]
    ops = list(r.get("on", [])) or list(S)
    if do in ("sub.expand", "sub.contract", "ps.contract", "resize"):
        ops = [r["sub"]]
    flags = []
    for k in ("sep", "destr", "partial"):
        if k in r:
            flags.append(f"{k}={int(bool(r[k]))}")
    cell = {
        "action": do if do != "fault" else "fault:" + r["kind"],
        "type": action_type(world, r),
        "entry": r.get("entry", "-"),
        "kinds": "".join(world.kind(n) for n in ops),
        "stores": [pre.store_of(n) for n in ops],
        "levels": [pre.level_of(n) for n in ops],
        "flags": ",".join(flags),
        "contraction": bool(pre.contraction),
        "pre_class": "-",
    }
    return cell


def _pre_class(pre, S):
    try:
        blocks = []
        for n in S:
            b = pre.block_of(n)
            if b is not None and not any(b is x for x in blocks):
                blocks.append(b)
        if not blocks:
            return "-"
        D = 1
        for b in blocks:
            D *= b.D
        if D > MAX_DIM:
            return "big"
        rho, names, dims = alpha.joint(blocks)
        if rho is None:
            return "malformed"
        return R.state_class(rho, dims)
    except Exception:
        return "?"


# ------------------------------------------------------------------------------------------
# touched / bystander decomposition
# ------------------------------------------------------------------------------------------
class Touched:
    """Joint pre/post description of everything connected to the addressed subsystems."""

    def __init__(self, pre, post, S):
        comps = alpha.components(pre.blocks, post.blocks)
        self.bystanders = []
        bpre, bpost, members = [], [], []
        for mem, ba, bb in comps:
            if any(m in S for m in mem):
                members.extend(mem)
                bpre.extend(ba)
                bpost.extend(bb)
            else:
                self.bystanders.append((mem, ba, bb))
        self.members = sorted(members)
        self.bpre = bpre
        self.bpost = bpost
        self.pre_members = sorted(m for b in bpre for m in b.members)
        self.post_members = sorted(m for b in bpost for m in b.members)
        self.too_big = False
        self.ok = True
        Dpre = int(np.prod([b.D for b in bpre])) if bpre else 1
        Dpost = int(np.prod([b.D for b in bpost])) if bpost else 1
        if max(Dpre, Dpost) > MAX_DIM:
            self.too_big = True
            return
        self.rho_pre, _, self.dims_pre = alpha.joint(bpre, self.pre_members)
        self.rho_post, _, self.dims_post = alpha.joint(bpost, self.post_members)
        if self.rho_pre is None or self.rho_post is None:
            self.ok = False

    def target_dims(self):
        """Dimension of every pre member in the frame of the post world."""
        out = []
        for m, d in zip(self.pre_members, self.dims_pre):
            if m in self.post_members:
                out.append(self.dims_post[self.post_members.index(m)])
            else:
                out.append(d)
        return out


def compare_bystanders(touched, props, oracle, cell, out, tol):
    for mem, ba, bb in touched.bystanders:
        if not ba:
            continue  # created in this step
        ka = sorted(b.key() for b in ba)
        kb = sorted(b.key() for b in bb)
        if ka == kb:
            continue
        D = max(int(np.prod([b.D for b in ba])) if ba else 1, int(np.prod([b.D for b in bb])) if bb else 1)
        if D > MAX_DIM:
            continue
        ra, na, da = alpha.joint(ba)
        rb, nb, db = alpha.joint(bb)
        if ra is None or rb is None:
            continue
        if na != nb:
            out.append(Violation(props, oracle, "bystander-membership", cell, f"{na} -> {nb}"))
            continue
        nd = [max(x, y) for x, y in zip(da, db)]
        ra, _ = R.pad_rho(ra, da, nd)
        rb, _ = R.pad_rho(rb, db, nd)
        d = R.maxdiff(ra, rb)
        if d > tol:
            out.append(
                Violation(props, oracle, "bystander-changed", cell, f"component {mem}: |d rho| = {d:.3g}")
            )


def compare_expected(expected, exp_names, exp_dims, touched, props, oracle, cell, out, tol, what="post-state-mismatch"):
    """expected is over exp_names (sorted); post is touched.rho_post over touched.post_members."""
    if exp_names != touched.post_members:
        out.append(
            Violation(
                props,
                oracle,
                "membership-mismatch",
                cell,
                f"expected live {exp_names}, stored {touched.post_members}",
            )
        )
        return False
    nd = [max(a, b) for a, b in zip(exp_dims, touched.dims_post)]
    e, _ = R.pad_rho(expected, exp_dims, nd)
    p, _ = R.pad_rho(touched.rho_post, touched.dims_post, nd)
    d = R.maxdiff(e, p)
    if d > tol:
        out.append(Violation(props, oracle, what, cell, f"|rho_post - expected| = {d:.3g} over {exp_names}"))
        return False
    return True


# ------------------------------------------------------------------------------------------
# C20 partition oracle
# ------------------------------------------------------------------------------------------
def check_partition(pre, post, S, cell, out, measured_now):
    props = ["C20"]
    pre_by_members = {tuple(b.members): b for b in pre.blocks}
    pre_block_of = {}
    for b in pre.blocks:
        for m in b.members:
            pre_block_of[m] = b
    addressed_blocks = [b for b in pre.blocks if any(m in S for m in b.members)]
    addr_ids = {id(b) for b in addressed_blocks}
    for b in post.blocks:
        pb = pre_by_members.get(tuple(b.members))
        if pb is not None and pb.key() == b.key():
            continue  # bit-identical
        # must consist only of subsystems drawn from addressed pre blocks
        bad = [m for m in b.members if m in pre_block_of and id(pre_block_of[m]) not in addr_ids]
        if bad:
            if pb is not None and not any(m in S for m in b.members):
                out.append(
                    Violation(
                        props,
                        "partition",
                        "bystander-block-rewritten",
                        cell,
                        f"block {b.members}: level {pb.level}->{b.level}, bytes differ (not addressed)",
                    )
                )
            else:
                out.append(
                    Violation(
                        props,
                        "partition",
                        "over-merge",
                        cell,
                        f"block {b.members} pulled in non-addressed {bad}",
                    )
                )
    if len(S) == 1:
        s = S[0]
        pb = pre_block_of.get(s)
        if pb is not None:
            for b in post.blocks:
                if s in b.members and len(b.members) > len(pb.members):
                    out.append(
                        Violation(
                            props,
                            "partition",
                            "single-target-enlarged",
                            cell,
                            f"{s}: block {pb.members} -> {b.members}",
                        )
                    )
    for m in measured_now:
        b = post.block_of(m)
        if b is not None and len(b.members) > 1:
            out.append(
                Violation(props, "partition", "measured-stays-in-block", cell, f"{m} still in {b.members}")
            )


# ------------------------------------------------------------------------------------------
# common checks
# ------------------------------------------------------------------------------------------
def action_props(world, r, res):
    """Properties whose specified transformation the action is an instance of."""
    do = r["do"]
    if do == "fault":
        # the two fault kinds that other properties spell out themselves also count against those
        return {"shrink_below_support": ["C17", "C10"], "use_destroyed": ["C17", "C05"]}.get(r.get("kind"), ["C17"])
    if do == "op":
        from sim.actions import op_spec

        spec = op_spec(world, r) or {}
        props = ["C03"] if spec.get("t", "").startswith("X.") else ["C01"]
        if spec.get("t") in ("X.BS", "F.PhaseShift") or (spec.get("t") == "X.Expr" and spec.get("form") == "bs"):
            props = props + ["C11"]
        return props
    if do == "measure":
        return ["C05"]
    return list(PROP_OF_ACTION.get(do, ["C01"]))


def common_checks(world, pre, post, r, res, cell, out):
    aprops = action_props(world, r, res)
    for prop, code, detail in post.problems:
        # a malformed world right after an action also means that the action did not perform its
        # specified transformation: the violation counts against the action's property as well
        props = [prop] + [p for p in aprops if p != prop and p != "C11"]
        out.append(Violation(props, "invariant", code, cell, detail))
    # user arrays
    for label, arr, dig in world.user_arrays:
        if _digest(arr) != dig:
            out.append(Violation(["C15"], "user-arrays", "user-array-mutated", cell, f"array given for {label}"))
    # reseat digests so that one mutation is reported once
    world.user_arrays = [(l, a, _digest(a)) for (l, a, d) in world.user_arrays]
    # key hygiene at the sampler seam: every draw of this step used a key that Config.random_key
    # handed out, that never reached the sampler before, and no two draws share a key
    if res.draws:
        seen = world.__dict__.setdefault("_seen_sampler_keys", set())
        handed = set(seams.keys_log())
        ks = [d["key"] for d in res.draws]
        dup = len(ks) != len(set(ks)) or any(k in seen for k in ks)
        foreign = any(k not in handed for k in ks)
        for k in ks:
            seen.add(k)
        if dup:
            out.append(Violation(["C14", "C04"], "key-hygiene", "key-reused", cell, f"{len(ks)} draws, {len(set(ks))} distinct keys in this step (or a key of an earlier step)"))
        if foreign:
            out.append(Violation(["C14"], "key-hygiene", "foreign-key", cell, "a key reached the sampler that Config.random_key did not hand out"))
    # other clients untouched (W13 f)
    me = r.get("client")
    if me is not None:
        pre_other = sorted(b.key() for b in pre.blocks if b.client is not None and b.client != me)
        post_other = sorted(b.key() for b in post.blocks if b.client is not None and b.client != me)
        if pre_other != post_other:
            out.append(
                Violation(["C13", "C20"], "isolation", "foreign-client-block-changed", cell, f"client {me} acted")
            )
        pc = [(c["handles"], c["envelopes"], c["state_objs"], c["ps"]) for c in pre.containers if c["client"] != me]
        qc = [(c["handles"], c["envelopes"], c["state_objs"], c["ps"]) for c in post.containers if c["client"] != me]
        # handles created in this step belong to `me`, so lists are comparable
        if pc != qc:
            out.append(
                Violation(["C13"], "isolation", "foreign-client-bookkeeping-changed", cell, f"client {me} acted")
            )


def _tol(pre):
    # some paths contract whatever the Config flag says (Envelope.apply_kraus ends with contract()), and
    # a contraction may drop eigenvalues below the library's 1e-6 purity cut: one tolerance for every step
    return TOL_CONTRACT


# ------------------------------------------------------------------------------------------
# main entry
# ------------------------------------------------------------------------------------------
PROP_OF_ACTION = {
    "env.combine": ["C02", "C13"],
    "env.reorder": ["C02", "C13"],
    "env.expand": ["C02", "C08"],
    "env.contract": ["C08"],
    "sub.expand": ["C02", "C08"],
    "sub.contract": ["C08"],
    "ps.contract": ["C08"],
    "ce.combine": ["C02", "C13"],
    "ce.reorder": ["C02", "C13"],
    "ce.expand": ["C02", "C08"],
    "mk_ce": ["C02", "C13"],
    "mk_env": ["C13"],
    "mk_custom": ["C13"],
    "mk_op": ["C15"],
    "mut_op": ["C15"],
    "config": ["C08"],
    "trace_out": ["C02"],
    "resize": ["C10"],
    "kraus": ["C06"],
    "povm": ["C09"],
}


def check_step(world, pre, post, r, res):
    out = []
    do = r["do"]
    S = list(res.addressed)
    cell = make_cell(world, pre, r, S)
    if res.status == "skipped":
        return out
    cell["pre_class"] = _pre_class(pre, S)
    common_checks(world, pre, post, r, res, cell, out)
    if post.tainted() and any(p[1].startswith("W07:shape") or p[1].startswith("W13:stored") for p in post.problems):
        # alpha is not trustworthy: invariant violations stand, refinement is not evaluated
        return out
    tol = _tol(pre)
    if do in ("sub.contract", "env.contract", "ps.contract"):
        # an explicit contraction may drop eigenvalues below its purity cut (the library's 1e-6, or the
        # tolerance the caller asked for)
        tol = max(TOL_CONTRACT, float(r.get("tol") or 0.0))
    if do == "fault":
        _check_fault(world, pre, post, r, res, cell, out, tol)
        return out
    props = action_props(world, r, res)
    if res.status == "raised":
        out.append(
            Violation(props, "valid-request", "raised:" + str(res.exc), cell, (res.msg or "")[:200])
        )
        return out
    measured_now = [n for n in pre.sub if not pre.sub[n]["measured"] and post.sub[n]["measured"]]
    if do == "op":
        _check_op(world, pre, post, r, res, S, props, cell, out, tol)
    elif do == "kraus":
        _check_kraus(world, pre, post, r, res, S, cell, out, tol)
    elif do == "measure":
        _check_measure(world, pre, post, r, res, S, cell, out, tol)
    elif do == "povm":
        _check_povm(world, pre, post, r, res, S, cell, out, tol)
    elif do == "trace_out":
        _check_identity(pre, post, S, ["C02"], "structural-identity", cell, out, tol)
        _check_trace_out(world, pre, post, r, res, S, cell, out, tol)
    elif do == "resize":
        _check_resize(world, pre, post, r, res, S, cell, out, tol)
    elif do in ("sub.contract", "env.contract", "ps.contract"):
        _check_identity(pre, post, S, ["C08"], "contract-identity", cell, out, tol)
        if do != "ps.contract":
            _check_contract_level(pre, post, S, cell, out, float(r.get("tol") or 0.0))
    else:
        _check_identity(pre, post, S, props, "structural-identity", cell, out, tol)
    if do not in ("mk_env", "mk_custom", "mk_op", "mut_op"):
        left = list(measured_now)
        if do == "measure" and res.status == "ok" and isinstance(res.ret, dict):
            # a projectively measured subsystem leaves its product space, destroyed or not
            for k in res.ret:
                n = world.name_of(k)
                if n is not None and n not in left:
                    left.append(n)
        check_partition(pre, post, S, cell, out, left)
    if do not in ("measure", "povm") and measured_now:
        out.append(Violation(props, "retirement", "unexpected-destruction", cell, f"{measured_now} destroyed by {do}"))
    return out


# ------------------------------------------------------------------------------------------
def _check_identity(pre, post, S, props, oracle, cell, out, tol, silent_ok=False):
    T = Touched(pre, post, S)
    compare_bystanders(T, props, oracle, cell, out, tol)
    if T.too_big or not T.ok or not T.bpre:
        return
    td = T.target_dims()
    e, lost = R.pad_rho(T.rho_pre, T.dims_pre, td)
    if lost > 1e-9:
        out.append(Violation(props, oracle, "population-lost", cell, f"truncation removed {lost:.3g}"))
    live = [m for m in T.pre_members if m in T.post_members]
    if live != T.pre_members:
        keep = [T.pre_members.index(m) for m in live]
        e, td = R.ptrace_keep(e, td, keep)
    compare_expected(e, live, td, T, props, oracle, cell, out, tol)


def _check_contract_level(pre, post, S, cell, out, asked=0.0):
    for n in S:
        bp, bq = pre.block_of(n), post.block_of(n)
        if bp is None or bq is None or bq.form == "bad":
            continue
        order = {"label": 0, "vector": 1, "matrix": 2}
        if order.get(bq.form, 9) < order.get(bp.form, 9):
            rho = bp.rho()
            if rho is None:
                continue
            # `asked`: the purity tolerance the caller passed to contract(), if any
            if bq.form in ("vector", "label") and R.purity(rho) < 1 - max(1e-5, 1.01 * asked):
                out.append(
                    Violation(["C08"], "contract-level", "contracted-mixed-state", cell, f"{n}: purity {R.purity(rho):.8f}")
                )
            if bq.form == "label":
                dg = np.real(np.diag(rho))
                if dg.max() < 1 - max(1e-6, asked) and not (len(bq.members) == 1 and isinstance(bq.arr, tuple)):
                    out.append(Violation(["C08"], "contract-level", "label-for-non-basis", cell, n))


def _check_op(world, pre, post, r, res, S, props, cell, out, tol):
    spec = res.info["spec"]
    T = Touched(pre, post, S)
    compare_bystanders(T, props, "op-refinement", cell, out, tol)
    if T.too_big or not T.ok:
        return
    if T.pre_members != T.post_members:
        out.append(
            Violation(props, "op-refinement", "membership-mismatch", cell, f"{T.pre_members} -> {T.post_members}")
        )
        return
    td = T.dims_post
    rho, lost = R.pad_rho(T.rho_pre, T.dims_pre, td)
    if lost > 1e-9:
        out.append(
            Violation(["C10"] + props, "auto-resize", "population-lost", cell, f"resize before operation removed {lost:.3g}")
        )
    idx = [T.pre_members.index(n) for n in r["on"]]
    odims = [td[i] for i in idx]
    try:
        O = specs.ref_operator(spec, odims)
    except Exception as e:
        out.append(Violation(props, "op-refinement", "reference-operator-unbuildable", cell, f"{type(e).__name__} dims {odims}"))
        return
    if O.shape[0] != int(np.prod(odims)):
        out.append(
            Violation(props, "op-refinement", "operator-dimension", cell, f"operator {O.shape} vs target dims {odims}")
        )
        return
    e = R.embed_apply(rho, td, O, idx)
    tr = float(np.real(np.trace(e)))
    if specs.renormalizes(spec):
        if tr < 1e-12:
            return
        e = e / tr
    ok = compare_expected(e, T.pre_members, td, T, props, "op-refinement", cell, out, tol)
    # C11: conservation + SU(2) closed form
    if "C11" in props:
        modes = [i for i, n in zip(idx, r["on"]) if world.kind(n) == "F"]
        pa = R.total_number_distribution(rho, td, modes)
        pb = R.total_number_distribution(T.rho_post, T.dims_post, [T.post_members.index(T.pre_members[i]) for i in modes])
        n = max(len(pa), len(pb))
        pa = np.pad(pa, (0, n - len(pa)))
        pb = np.pad(pb, (0, n - len(pb)))
        if np.max(np.abs(pa - pb)) > 1e-7:
            out.append(
                Violation(["C11"], "photon-number", "total-number-changed", cell, f"max |dP(N)| = {np.max(np.abs(pa - pb)):.3g}")
            )
        if spec["t"] == "X.BS":
            U = R.beamsplitter_su2(odims[0], odims[1], spec["eta"])
            e2 = R.embed_apply(rho, td, U, idx)
            tr2 = float(np.real(np.trace(e2)))
            if tr2 > 1e-12:
                e2 = e2 / tr2
                compare_expected(e2, T.pre_members, td, T, ["C11"], "su2-closed-form", cell, out, max(tol, 1e-6))
    # C10 estimator clause
    if spec["t"] in ("F.Displace", "F.Squeeze") or (spec["t"] == "F.Expr" and spec.get("form") == "rot"):
        try:
            i = idx[0]
            rf, dfl = R.ptrace_keep(T.rho_pre, T.dims_pre, [i])
            big = max(td[i], dfl[0]) + 60
            rb, _ = R.pad_rho(rf, dfl, [big])
            Ob = specs.ref_operator(spec, [big])
            ideal = Ob @ rb @ Ob.conj().T
            tail = float(1 - np.real(np.sum(np.diag(ideal)[: td[i]])) / max(np.real(np.trace(ideal)), 1e-300))
            if tail > 1e-5:
                out.append(
                    Violation(["C10"], "estimator", "estimator-accuracy", cell, f"cutoff {td[i]} leaves {tail:.3g} of the ideal result outside")
                )
        except Exception:
            pass


def _check_kraus(world, pre, post, r, res, S, cell, out, tol):
    props = ["C06"]
    mats = res.info["mats"]
    T = Touched(pre, post, S)
    compare_bystanders(T, props, "kraus-refinement", cell, out, tol)
    if T.too_big or not T.ok:
        return
    if T.pre_members != T.post_members:
        out.append(Violation(props, "kraus-refinement", "membership-mismatch", cell, f"{T.pre_members} -> {T.post_members}"))
        return
    td = T.dims_post
    rho, lost = R.pad_rho(T.rho_pre, T.dims_pre, td)
    idx = [T.pre_members.index(n) for n in r["on"]]
    if [td[i] for i in idx] != [T.dims_pre[i] for i in idx]:
        out.append(Violation(props, "kraus-refinement", "dimension-changed", cell, "channel changed a target dimension"))
        return
    e = R.kraus_apply(rho, td, mats, idx)
    compare_expected(e, T.pre_members, td, T, props, "kraus-refinement", cell, out, tol)


def _names_of_outcomes(world, d, cell, out, props):
    named = {}
    for k, v in d.items():
        n = world.name_of(k)
        if n is None:
            out.append(Violation(props, "outcome-keys", "unknown-key", cell, repr(type(k))))
            continue
        if n in named:
            out.append(Violation(props + ["C18"], "outcome-keys", "duplicate-key", cell, n))
        try:
            named[n] = int(v)
        except Exception:
            out.append(Violation(props, "outcome-keys", "non-integer-outcome", cell, f"{n}: {v!r}"))
    return named


def _equal_valued_sibling(world, pre, name):
    """Is there another live subsystem of the same kind holding a bit-identical own state?"""
    b = pre.block_of(name)
    if b is None or b.kind != "own":
        return False
    for other, m in pre.sub.items():
        if other == name or m["measured"] or world.kind(other) != world.kind(name):
            continue
        ob = pre.block_of(other)
        if ob is not None and ob.kind == "own" and ob.digest == b.digest:
            return True
    return False


def _born_match(world, pre, T, draws, outcomes, cell, out, props, rho0=None, dims0=None):
    """Match sampler draws to measured members; every draw must carry the Born conditional."""
    members = T.pre_members
    rho = T.rho_pre if rho0 is None else rho0
    dims = T.dims_pre if dims0 is None else dims0
    measured = [n for n in outcomes if n in members]
    draws = [d for d in draws if d["p"] is not None]

    def cond_probs(sub, given):
        i = members.index(sub)
        pr = R.project(rho, dims, {members.index(g): o for g, o in given.items()}) if given else rho
        tr = float(np.real(np.trace(pr)))
        if tr < 1e-14:
            return None
        return R.marginal_diag(pr, dims, i) / tr

    best = {"depth": -1, "why": ""}

    def rec(k, used, given):
        if k == len(draws):
            # members without a draw must be point masses
            for m in measured:
                if m in used:
                    continue
                p = cond_probs(m, {})
                p2 = cond_probs(m, {g: o for g, o in given.items() if g != m})
                o = outcomes[m]
                ok = False
                for pp in (p, p2):
                    if pp is not None and 0 <= o < len(pp) and pp[o] > 1 - 1e-7:
                        ok = True
                if not ok:
                    if k > best["depth"]:
                        best["depth"] = k
                        best["why"] = f"{m} reported {o} without a draw but is not a point mass"
                    return False
            return True
        d = draws[k]
        # re-measurement of an already collapsed subsystem: a point-mass draw on the outcome
        # that was already reported (e.g. the partner measured once more) carries no information
        pk = np.real(np.asarray(d["p"], dtype=np.complex128))
        if np.all(np.isfinite(pk)) and pk.sum() > 0 and pk.max() / pk.sum() > 1 - 1e-9:
            for m in measured:
                if m in used and outcomes[m] == d["idx"] and d["n"] >= dims[members.index(m)]:
                    if rec(k + 1, used, given):
                        return True
                    break
        for m in measured:
            if m in used:
                continue
            i = members.index(m)
            if d["n"] < dims[i]:
                continue
            if outcomes[m] != d["idx"]:
                continue
            pref = cond_probs(m, given)
            if pref is None:
                continue
            p = np.real(np.asarray(d["p"], dtype=np.complex128))
            if len(p) < len(pref):
                continue
            pref = np.pad(pref, (0, len(p) - len(pref)))
            if not np.all(np.isfinite(p)) or abs(p.sum()) < 1e-300:
                if k > best["depth"]:
                    best["depth"] = k
                    best["why"] = f"draw {k}: p = {np.array2string(np.asarray(d['p']), precision=4)} is not a distribution"
                continue
            pn = p / p.sum()
            if np.max(np.abs(pn - pref)) > TOL_P:
                if k >= best["depth"]:
                    best["depth"] = k
                    best["why"] = (
                        f"draw {k} ({m}): p = {np.array2string(pn, precision=5)} but Born gives "
                        f"{np.array2string(pref, precision=5)}"
                    )
                continue
            g2 = dict(given)
            g2[m] = outcomes[m]
            if rec(k + 1, used | {m}, g2):
                return True
        if k > best["depth"]:
            best["depth"] = k
            best["why"] = best["why"] or f"draw {k} (n={d['n']}, idx={d['idx']}) matches no measured subsystem"
        return False

    if not rec(0, frozenset(), {}):
        out.append(Violation(props, "born", "prob-mismatch", cell, best["why"] or "no consistent assignment of draws"))
        return False
    return True


def _check_measure(world, pre, post, r, res, S, cell, out, tol):
    destr = bool(r.get("destr", True))
    ret = res.ret
    if not isinstance(ret, dict):
        out.append(Violation(["C05"], "outcome-keys", "not-a-dict", cell, repr(type(ret))))
        return
    outcomes = _names_of_outcomes(world, ret, cell, out, ["C05"])
    spec_set = list(S)
    missing = [n for n in spec_set if n not in outcomes]
    extra = [n for n in outcomes if n not in spec_set]
    if missing or extra:
        props = ["C05"]
        if any(_equal_valued_sibling(world, pre, n) for n in missing + extra):
            props.append("C18")
        out.append(
            Violation(props, "outcome-keys", "outcome-keys", cell, f"specified {spec_set}, reported {sorted(outcomes)}")
        )
    touched_set = sorted(set(spec_set) | set(outcomes))
    T = Touched(pre, post, touched_set)
    compare_bystanders(T, ["C05"], "collapse", cell, out, tol)
    # retirement
    for n in touched_set:
        m = post.sub[n]
        should_die = destr and world.kind(n) != "C" and n in spec_set
        if n in extra and not should_die:
            should_die = m["measured"]  # fate of an unspecified extra is judged by outcome-keys above
        if should_die and not (m["measured"] and not m["has_state"] and n not in post.where):
            out.append(Violation(["C05"], "retirement", "not-retired", cell, f"{n}: measured={m['measured']} has_state={m['has_state']}"))
        if not should_die and m["measured"]:
            out.append(Violation(["C05"], "retirement", "destroyed-but-should-live", cell, n))
    for n, m in post.sub.items():
        if n not in touched_set and m["measured"] and not pre.sub[n]["measured"]:
            out.append(Violation(["C05"], "retirement", "unspecified-destroyed", cell, n))
    if T.too_big or not T.ok or not T.bpre:
        return
    # Born rule at the sampler seam
    born_ok = _born_match(world, pre, T, res.draws, outcomes, cell, out, ["C04"])
    # Mach-Zehnder scenario (C11): the detection probability at output 1 is sin^2(phi/2)
    mz = r.get("mz")
    if mz and mz.get("port") == 1 and r.get("on"):
        n = r["on"][0]
        want = float(np.sin(mz["phi"] / 2) ** 2)
        got = None
        if n in T.pre_members:
            got = float(R.marginal_diag(T.rho_pre, T.dims_pre, T.pre_members.index(n))[1:2].sum())
        seam = None
        for d in res.draws:
            if d["p"] is not None and len(d["p"]) >= 2:
                pp = np.real(np.asarray(d["p"], dtype=np.complex128))
                if np.all(np.isfinite(pp)) and pp.sum() > 0:
                    seam = float(pp[1] / pp.sum())
                    break
        for label, val in (("state", got), ("sampler", seam)):
            if val is not None and abs(val - want) > 1e-6:
                out.append(
                    Violation(["C11"], "mach-zehnder", "detection-probability", cell, f"P(1 photon at output 1) from the {label} = {val:.8f}, sin^2(phi/2) = {want:.8f} (phi={mz['phi']})")
                )
    # collapse
    proj = {T.pre_members.index(n): o for n, o in outcomes.items() if n in T.pre_members}
    bad = [n for n, o in outcomes.items() if n in T.pre_members and not (0 <= o < T.dims_pre[T.pre_members.index(n)])]
    if bad:
        out.append(Violation(["C04", "C05"], "born", "outcome-out-of-range", cell, str(bad)))
        return
    e = R.project(T.rho_pre, T.dims_pre, proj)
    tr = float(np.real(np.trace(e)))
    # the forced-outcome chooser takes every outcome above 1e-6 of a draw; a reported outcome is
    # impossible only below the product of that bound over the draws of the step
    ndraw = sum(1 for d in res.draws if d["p"] is not None and len(d["p"]) > 1)
    if tr < 1e-10:
        # (between the two bounds the post-selected state is below the model's own rounding noise)
        if born_ok and tr < 0.1 * 1e-6 ** max(1, ndraw):
            out.append(Violation(["C04"], "born", "zero-prob-outcome", cell, f"reported {outcomes} has probability {tr:.3g}"))
        return
    e = e / tr
    live = [m for m in T.pre_members if not post.sub[m]["measured"]]
    keep = [T.pre_members.index(m) for m in live]
    e, ed = R.ptrace_keep(e, T.dims_pre, keep)
    if live != T.post_members:
        out.append(Violation(["C05"], "collapse", "membership-mismatch", cell, f"expected live {live}, stored {T.post_members}"))
        return
    compare_expected(e, live, ed, T, ["C05"], "collapse", cell, out, tol)


def _check_povm(world, pre, post, r, res, S, cell, out, tol):
    props = ["C09"]
    mats = res.info["mats"]
    destr = bool(r.get("destr", True))
    ret = res.ret
    if not (isinstance(ret, tuple) and len(ret) == 2 and isinstance(ret[1], dict)):
        out.append(Violation(props, "povm", "bad-return", cell, repr(ret)[:80]))
        return
    try:
        o = int(ret[0])
    except Exception:
        out.append(Violation(props, "povm", "bad-return", cell, repr(ret)[:80]))
        return
    others = _names_of_outcomes(world, ret[1], cell, out, props)
    S = list(r["on"])
    touched_set = sorted(set(S) | set(others) | {world.partner(n) for n in S if world.partner(n) and n in pre.where and world.partner(n) in pre.where})
    touched_set = [n for n in touched_set if n in pre.where]
    T = Touched(pre, post, touched_set)
    compare_bystanders(T, props, "povm", cell, out, tol)
    # fate
    newly = [n for n in pre.sub if not pre.sub[n]["measured"] and post.sub[n]["measured"]]
    if not destr and newly:
        out.append(Violation(props, "povm-fate", "nondestructive-destroyed", cell, str(newly)))
    if destr:
        for n in S:
            if world.kind(n) != "C" and not post.sub[n]["measured"]:
                out.append(Violation(props, "povm-fate", "target-not-retired", cell, n))
    for n in newly:
        if n not in S and n not in others:
            out.append(Violation(props, "povm-fate", "destroyed-unreported", cell, n))
        if n not in S and world.partner(n) not in S:
            out.append(Violation(props, "povm-fate", "unrelated-destroyed", cell, n))
    for n in others:
        if n in S:
            out.append(Violation(props, "povm-fate", "target-in-other-outcomes", cell, n))
    if T.too_big or not T.ok or not T.bpre:
        return
    if not (0 <= o < len(mats)):
        out.append(Violation(props, "povm", "outcome-out-of-range", cell, str(o)))
        return
    idx = [T.pre_members.index(n) for n in r["on"]]
    # probabilities
    pref = []
    for M in mats:
        pref.append(float(np.real(np.trace(R.embed_apply(T.rho_pre, T.dims_pre, M, idx)))))
    pref = np.array(pref)
    draws = [d for d in res.draws if d["p"] is not None]
    k0 = None
    for k, d in enumerate(draws):
        if d["n"] == len(mats) and d["idx"] == o:
            k0 = k
            break
    if k0 is None:
        if pref[o] < 1 - 1e-7:
            out.append(Violation(props, "povm", "no-draw", cell, f"outcome {o} reported without a matching draw; p_ref = {pref[o]:.4g}"))
    else:
        p = np.real(np.asarray(draws[k0]["p"], dtype=np.complex128))
        if not np.all(np.isfinite(p)) or abs(p.sum()) < 1e-300:
            out.append(Violation(props, "povm", "prob-mismatch", cell, f"p = {p} is not a distribution"))
        else:
            pn = p / p.sum()
            if np.max(np.abs(pn - pref / pref.sum())) > TOL_P:
                out.append(
                    Violation(
                        props,
                        "povm",
                        "prob-mismatch",
                        cell,
                        f"p = {np.array2string(pn, precision=5)} but Tr(M rho M^+) = {np.array2string(pref, precision=5)}",
                    )
                )
    if pref[o] < 1e-10:
        return
    e = R.embed_apply(T.rho_pre, T.dims_pre, mats[o], idx) / pref[o]
    # follow-up projective measurements
    if others:
        rest = [d for k, d in enumerate(draws) if k != k0]
        ok = True
        if any(n not in T.pre_members for n in others):
            ok = False
        if ok:
            _born_match(world, pre, T, rest, others, cell, out, ["C09"], rho0=e, dims0=T.dims_pre)
            proj = {T.pre_members.index(n): v for n, v in others.items()}
            if any(not (0 <= v < T.dims_pre[i]) for i, v in proj.items()):
                out.append(Violation(props, "povm", "outcome-out-of-range", cell, str(others)))
                return
            e = R.project(e, T.dims_pre, proj)
            tr = float(np.real(np.trace(e)))
            if tr < 1e-10:
                return
            e = e / tr
    live = [m for m in T.pre_members if not post.sub[m]["measured"]]
    keep = [T.pre_members.index(m) for m in live]
    e, ed = R.ptrace_keep(e, T.dims_pre, keep)
    if live != T.post_members:
        out.append(Violation(props, "povm", "membership-mismatch", cell, f"expected live {live}, stored {T.post_members}"))
        return
    compare_expected(e, live, ed, T, props, "povm", cell, out, tol)


def _ret_to_rho(world, post, on, ret):
    """Convert a trace_out return value to (rho, was_vector)."""
    from photon_weave.state.polarization import PolarizationLabel

    dims = [post.sub[n]["dims"] for n in on]
    if isinstance(ret, PolarizationLabel):
        v = R.POL_VEC[ret.value]
        return np.outer(v, v.conj()), True, [2]
    if isinstance(ret, (int, np.integer)) and not isinstance(ret, bool):
        d = dims[0] if dims[0] > 0 else int(ret) + 1
        v = np.zeros(d, dtype=R.C)
        if 0 <= int(ret) < d:
            v[int(ret)] = 1
        return np.outer(v, v.conj()), True, [d]
    a = np.asarray(ret)
    D = int(np.prod(dims))
    if a.ndim == 2 and a.shape == (D, 1):
        v = a.astype(R.C).ravel()
        return np.outer(v, v.conj()), True, dims
    if a.ndim == 2 and a.shape == (D, D):
        return a.astype(R.C), False, dims
    return None, False, dims


def _check_trace_out(world, pre, post, r, res, S, cell, out, tol):
    on = r["on"]
    T = Touched(pre, pre, on)  # reference is the PRE state
    if T.too_big or not T.ok:
        return
    keep = [T.pre_members.index(n) for n in on]
    ref, rd = R.ptrace_keep(T.rho_pre, T.dims_pre, keep)
    got, was_vec, gd = _ret_to_rho(world, post, on, res.ret)
    if got is None:
        out.append(Violation(["C02"], "trace-out", "bad-return-shape", cell, f"{getattr(res.ret, 'shape', type(res.ret))} for dims {rd}"))
        return
    nd = [max(a, b) for a, b in zip(rd, gd)]
    ref_p, _ = R.pad_rho(ref, rd, nd)
    got_p, _ = R.pad_rho(got, gd, nd)
    if was_vec and R.purity(ref) < 1 - 1e-6:
        out.append(Violation(["C02"], "trace-out", "vector-for-mixed", cell, f"reduced state has purity {R.purity(ref):.6f}"))
        return
    d = R.maxdiff(ref_p, got_p)
    if d > max(tol, 1e-7):
        out.append(Violation(["C02"], "trace-out", "reduced-state-mismatch", cell, f"|returned - partial trace| = {d:.3g} for {on}"))


def _check_resize(world, pre, post, r, res, S, cell, out, tol):
    props = ["C10"]
    n = r["sub"]
    new = int(r["new"])
    d0, d1 = pre.sub[n]["dims"], post.sub[n]["dims"]
    ok = bool(res.ret)
    T = Touched(pre, post, S)
    compare_bystanders(T, props, "resize", cell, out, tol)
    if ok:
        if d1 != new:
            out.append(Violation(props, "resize", "true-but-dimension", cell, f"returned True, dimensions {d0} -> {d1}, asked {new}"))
    else:
        if d1 != d0:
            out.append(Violation(props, "resize", "false-but-changed", cell, f"returned {res.ret!r}, dimensions {d0} -> {d1}"))
        elif new > max(d0, 0) and d0 > 0:
            out.append(Violation(props, "resize", "upward-refused", cell, f"{d0} -> {new} returned {res.ret!r}"))
    if T.too_big or not T.ok:
        return
    td = T.target_dims()
    e, lost = R.pad_rho(T.rho_pre, T.dims_pre, td)
    if lost > 1e-12:
        out.append(Violation(props, "resize", "population-removed", cell, f"removed {lost:.3g}"))
    compare_expected(e, T.pre_members, td, T, props, "resize", cell, out, tol)


def _check_fault(world, pre, post, r, res, cell, out, tol):
    k = r["kind"]
    props = action_props(world, r, res)
    rejected = res.status == "raised"
    if not rejected:
        if k == "shrink_below_support" and not bool(res.info.get("returned")):
            rejected = True  # documented failure value
    if not rejected:
        out.append(Violation(props, "rejection", "not-raised", cell, f"returned {str(res.info.get('returned'))[:60]}"))
    # unchanged?
    before = len(out)
    T = Touched(pre, post, [])
    compare_bystanders(T, props, "reject-atomicity", cell, out, tol)
    for v in out[before:]:
        v.failure = "mutated-on-reject:" + v.failure
        v.cell["failure"] = v.failure
    dead_pre = sorted(n for n, m in pre.sub.items() if m["measured"])
    dead_post = sorted(n for n, m in post.sub.items() if m["measured"])
    if dead_pre != dead_post:
        out.append(Violation(props, "reject-atomicity", "mutated-on-reject:destroyed", cell, f"{dead_pre} -> {dead_post}"))
    if rejected:
        # C20 holds for refused requests too: joining exactly the blocks of several addressed subsystems
        # before refusing is within the statement (the unchanged tree does it for composite operations
        # of the wrong kind and for envelope channels), but a request on ONE subsystem enlarges nothing,
        # and no block without an addressed subsystem takes part in a join
        owner = {}
        for i, b in enumerate(pre.blocks):
            for m in b.members:
                owner[m] = i
        addressed = set(r.get("on", []))
        for b in post.blocks:
            src = sorted({owner[m] for m in b.members if m in owner})
            if len(src) > 1:
                foreign = [i for i in src if not (set(pre.blocks[i].members) & addressed)]
                if len(addressed) <= 1 or foreign:
                    out.append(Violation(["C20"], "over-merge", "joined-by-rejected-request", cell, f"{[list(pre.blocks[i].members) for i in src]} -> {list(b.members)} (addressed {sorted(addressed)})"))
                    break
    if k == "shrink_below_support":
        n = r["on"][0]
        if pre.sub[n]["dims"] != post.sub[n]["dims"]:
            out.append(
                Violation(["C17", "C10"], "reject-atomicity", "mutated-on-reject:dimension", cell, f"{pre.sub[n]['dims']} -> {post.sub[n]['dims']}")
            )
