"""
Reference model: small dense numpy/scipy quantum mechanics, written independently of
photon_weave/_math/ops.py and of the library's einsum string constructor.

A joint state is (rho, dims): rho is a (D, D) complex128 density matrix, dims the list of
tensor-factor dimensions, D = prod(dims).
"""

from __future__ import annotations

import math
from functools import lru_cache

import numpy as np
from scipy.linalg import expm as _expm

C = np.complex128


# ------------------------------------------------------------------------------------------
# tensors
# ------------------------------------------------------------------------------------------
def _t(rho, dims):
    return rho.reshape(list(dims) * 2)


def _m(t, dims):
    D = int(np.prod(dims)) if len(dims) else 1
    return t.reshape(D, D)


def kron_all(rhos):
    out = np.ones((1, 1), dtype=C)
    for r in rhos:
        out = np.kron(out, r)
    return out


def permute(rho, dims, perm):
    """New factor k is old factor perm[k]."""
    n = len(dims)
    if list(perm) == list(range(n)):
        return rho, list(dims)
    t = _t(rho, dims).transpose(list(perm) + [n + p for p in perm])
    nd = [dims[p] for p in perm]
    return _m(t, nd), nd


def embed_apply(rho, dims, op, targets, dagger_side=True):
    """(O (x) I) rho (O (x) I)^dagger with O's k-th factor on factor targets[k]."""
    n = len(dims)
    k = len(targets)
    tdims = [dims[t] for t in targets]
    Dt = int(np.prod(tdims))
    op = np.asarray(op, dtype=C)
    assert op.shape == (Dt, Dt), (op.shape, tdims)
    O = op.reshape(tdims * 2)
    t = _t(rho, dims)
    # left multiplication: contract O's column axes with row axes `targets`
    t = np.tensordot(O, t, axes=(list(range(k, 2 * k)), list(targets)))
    # now axes: [t-rows (k)] + remaining original axes in order (without targets)
    rest = [i for i in range(2 * n) if i not in targets]
    order = list(targets) + rest
    inv = np.argsort(order)
    t = t.transpose(inv)
    if dagger_side:
        Oc = np.conj(O)
        col_t = [n + x for x in targets]
        t = np.tensordot(Oc, t, axes=(list(range(k, 2 * k)), col_t))
        rest = [i for i in range(2 * n) if i not in col_t]
        order = col_t + rest
        inv = np.argsort(order)
        t = t.transpose(inv)
    return _m(t, dims)


def kraus_apply(rho, dims, ops, targets):
    out = np.zeros_like(rho)
    for K in ops:
        out = out + embed_apply(rho, dims, K, targets)
    return out


def ptrace_keep(rho, dims, keep):
    """Partial trace keeping factors `keep` (in that order)."""
    n = len(dims)
    t = _t(rho, dims)
    drop = [i for i in range(n) if i not in keep]
    # trace dropped factors one by one (highest first so numbering stays valid)
    cur = list(range(n))
    for d in sorted(drop, reverse=True):
        pos = cur.index(d)
        m = len(cur)
        t = np.trace(t, axis1=pos, axis2=m + pos)
        cur.pop(pos)
    # cur is ascending order of kept factors; permute to requested order
    m = len(cur)
    perm = [cur.index(kf) for kf in keep]
    t = t.transpose(perm + [m + p for p in perm])
    kd = [dims[kf] for kf in keep]
    return _m(t, kd), kd


def project(rho, dims, outcomes):
    """P rho P (unnormalised) with P = prod |o><o| on factor idx for (idx, o) in outcomes.
    Factors are kept (dimension unchanged)."""
    t = _t(rho, dims).copy()
    n = len(dims)
    for idx, o in outcomes.items():
        mask = np.zeros(dims[idx])
        if 0 <= o < dims[idx]:
            mask[o] = 1.0
        shp = [1] * (2 * n)
        shp[idx] = dims[idx]
        t = t * mask.reshape(shp)
        shp = [1] * (2 * n)
        shp[n + idx] = dims[idx]
        t = t * mask.reshape(shp)
    return _m(t, dims)


def marginal_diag(rho, dims, idx):
    r, _ = ptrace_keep(rho, dims, [idx])
    return np.real(np.diag(r))


def pad_rho(rho, dims, new_dims):
    """Pad with zeros / truncate each factor to new_dims. Returns (rho', lost_population)."""
    if list(dims) == list(new_dims):
        return rho, 0.0
    n = len(dims)
    t = _t(rho, dims)
    tr0 = float(np.real(np.trace(rho)))
    sl = []
    pads = []
    for d, nd in zip(dims, new_dims):
        sl.append(slice(0, min(d, nd)))
        pads.append((0, max(0, nd - d)))
    t = t[tuple(sl + sl)]
    t = np.pad(t, pads + pads)
    out = _m(t, new_dims)
    tr1 = float(np.real(np.trace(out)))
    return out, tr0 - tr1


def purity(rho):
    return float(np.real(np.trace(rho @ rho)))


def fidelity_pure(psi_rho, rho):
    return float(np.real(np.trace(psi_rho @ rho)))


def maxdiff(a, b):
    if a.shape != b.shape:
        return float("inf")
    if a.size == 0:
        return 0.0
    d = np.abs(a - b)
    if not np.all(np.isfinite(d)):
        return float("inf")
    return float(d.max())


def state_class(rho, dims):
    """basis / superposed / entangled / mixed (appendix A)."""
    pu = purity(rho)
    if pu < 1 - 1e-9:
        return "mixed"
    dg = np.real(np.diag(rho))
    if np.sum(dg > 1e-12) == 1:
        return "basis"
    if len(dims) > 1:
        for i in range(len(dims)):
            r, _ = ptrace_keep(rho, dims, [i])
            if purity(r) < 1 - 1e-9:
                return "entangled"
    return "superposed"


def total_number_distribution(rho, dims, modes):
    """P(N) for N = sum of occupation over factor indices `modes`."""
    r, kd = ptrace_keep(rho, dims, list(modes))
    dg = np.real(np.diag(r)).reshape(kd)
    nmax = sum(d - 1 for d in kd)
    out = np.zeros(nmax + 1)
    for idx in np.ndindex(*kd):
        out[sum(idx)] += dg[idx]
    return out


# ------------------------------------------------------------------------------------------
# operators (textbook definitions)
# ------------------------------------------------------------------------------------------
def destroy(d):
    a = np.zeros((d, d), dtype=C)
    for n in range(1, d):
        a[n - 1, n] = math.sqrt(n)
    return a


def create(d):
    return destroy(d).conj().T


def number(d):
    return np.diag(np.arange(d)).astype(C)


def phase(d, theta):
    return np.diag(np.exp(1j * theta * np.arange(d))).astype(C)


def displace(d, alpha):
    a = destroy(d)
    return _expm(alpha * a.conj().T - np.conj(alpha) * a)


def squeeze(d, zeta):
    a = destroy(d)
    ad = a.conj().T
    return _expm(0.5 * (np.conj(zeta) * (a @ a) - zeta * (ad @ ad)))


def beamsplitter_expm(d1, d2, eta):
    a, b = destroy(d1), destroy(d2)
    G = np.kron(a.conj().T, b) + np.kron(a, b.conj().T)
    return _expm(1j * eta * G)


def beamsplitter_su2(d1, d2, eta):
    """Closed form <m1,m2|U|n1,n2>, exact on n1+n2 <= min(d1,d2)-1 (Appendix A)."""
    c = math.cos(eta)
    s = 1j * math.sin(eta)
    U = np.zeros((d1 * d2, d1 * d2), dtype=C)
    f = [math.factorial(i) for i in range(d1 + d2 + 2)]
    for n1 in range(d1):
        for n2 in range(d2):
            N = n1 + n2
            for m1 in range(min(N, d1 - 1) + 1):
                m2 = N - m1
                if m2 >= d2:
                    continue
                amp = 0.0 + 0.0j
                for k in range(0, min(n1, m1) + 1):
                    l = m1 - k
                    if l < 0 or l > n2:
                        continue
                    amp += (
                        math.comb(n1, k)
                        * c**k
                        * s ** (n1 - k)
                        * math.comb(n2, l)
                        * s**l
                        * c ** (n2 - l)
                    )
                amp *= math.sqrt(f[m1] * f[m2]) / math.sqrt(f[n1] * f[n2])
                U[m1 * d2 + m2, n1 * d2 + n2] = amp
    return U


SQ2 = 1 / math.sqrt(2)
PAULI = {
    "I": np.eye(2, dtype=C),
    "X": np.array([[0, 1], [1, 0]], dtype=C),
    "Y": np.array([[0, -1j], [1j, 0]], dtype=C),
    "Z": np.array([[1, 0], [0, -1]], dtype=C),
    "H": np.array([[1, 1], [1, -1]], dtype=C) * SQ2,
    "S": np.array([[1, 0], [0, 1j]], dtype=C),
    "T": np.array([[1, 0], [0, np.exp(1j * math.pi / 4)]], dtype=C),
    "SX": np.array([[1 + 1j, 1 - 1j], [1 - 1j, 1 + 1j]], dtype=C) / 2,
}


def rx(th):
    return np.array(
        [[math.cos(th / 2), -1j * math.sin(th / 2)], [-1j * math.sin(th / 2), math.cos(th / 2)]],
        dtype=C,
    )


def ry(th):
    return np.array(
        [[math.cos(th / 2), -math.sin(th / 2)], [math.sin(th / 2), math.cos(th / 2)]], dtype=C
    )


def rz(th):
    return np.array([[np.exp(-1j * th / 2), 0], [0, np.exp(1j * th / 2)]], dtype=C)


def u3(phi, theta, omega):
    c, s = math.cos(theta / 2), math.sin(theta / 2)
    return np.array(
        [[c, -np.exp(1j * omega) * s], [np.exp(1j * phi) * s, np.exp(1j * (phi + omega)) * c]],
        dtype=C,
    )


CX = np.array([[1, 0, 0, 0], [0, 1, 0, 0], [0, 0, 0, 1], [0, 0, 1, 0]], dtype=C)
CZ = np.diag([1, 1, 1, -1]).astype(C)
SWAP = np.array([[1, 0, 0, 0], [0, 0, 1, 0], [0, 1, 0, 0], [0, 0, 0, 1]], dtype=C)
CSWAP = np.eye(8, dtype=C)
CSWAP[[5, 6]] = CSWAP[[6, 5]]

POL_VEC = {
    "H": np.array([1, 0], dtype=C),
    "V": np.array([0, 1], dtype=C),
    "R": np.array([SQ2, 1j * SQ2], dtype=C),
    "L": np.array([SQ2, -1j * SQ2], dtype=C),
}


# ------------------------------------------------------------------------------------------
# seeded random matrices (deterministic from an integer)
# ------------------------------------------------------------------------------------------
def haar_unitary(d, seed):
    rng = np.random.default_rng(seed)
    z = (rng.standard_normal((d, d)) + 1j * rng.standard_normal((d, d))) / math.sqrt(2)
    q, r = np.linalg.qr(z)
    ph = np.diag(r) / np.abs(np.diag(r))
    return (q * ph).astype(C)


def random_contraction(d, seed):
    """Non-unitary, full-rank operator with singular values in [0.3, 1]."""
    rng = np.random.default_rng(seed)
    u = haar_unitary(d, seed * 2 + 1)
    v = haar_unitary(d, seed * 2 + 2)
    s = 0.3 + 0.7 * rng.random(d)
    s[0] = 1.0
    return (u * s) @ v


def dilation_kraus(d, n_ops, seed):
    """n_ops Kraus operators on dimension d from a Haar isometry (unitary dilation)."""
    U = haar_unitary(d * n_ops, seed)
    V = U[:, :d]  # isometry (d*n, d)
    return [V[i * d : (i + 1) * d, :].copy() for i in range(n_ops)]


def is_cptp(ops, tol=1e-9):
    d = ops[0].shape[0]
    s = sum(K.conj().T @ K for K in ops)
    return maxdiff(s, np.eye(d)) < tol
