"""Core drivers shared by the worker CLI, the shrinker and the check front end."""

from __future__ import annotations

import argparse
import copy
import faulthandler
import json
import os
import sys
import time


def _violations_for(prop, rr):
    if prop == "ANY":
        return list(rr.violations)
    return [v for v in rr.violations if prop in v.props]


DEADLINE = None  # set by the worker: optional twins of a run are not started after it


def _late():
    import time

    return DEADLINE is not None and time.time() > DEADLINE


def run_seed(prop, seed, tier, profile=None, overrides=None):
    """One simulated run (plus twins where the property is relational).
    Returns (record dict, RunResult)."""
    from sim import gen, runner, twins

    profile = profile or prop
    g = gen.Gen(seed, profile, tier=tier, overrides=overrides)
    mode = "real" if prop == "C14" else "forced"
    cfg = {"seed": seed, "contraction": g.contraction, "ops": g.ops, "mode": mode, "lib_seed": seed % 1000 + 1, "debuglog": g.debuglog}
    keep = prop in ("C14",)
    rr = runner.execute_run(cfg, gen=g, keep_snapshots=keep)
    viols = [v.to_json() for v in _violations_for(prop, rr)]
    all_viols = [v.to_json() for v in rr.violations]
    rec = {
        "seed": seed,
        "profile": profile + ("+" + ",".join(f"{k}={v}" for k, v in sorted(overrides.items())) if overrides else ""),
        "steps": rr.steps,
        "checked": rr.checked,
        "digest": rr.digest,
        "stopped": rr.stopped,
        "harness": rr.harness_error,
        "violations": viols,
        "other_violations": [v for v in all_viols if prop not in v["props"]],
        "twin": None,
    }
    cfg_json = {k: v for k, v in cfg.items()}
    cfg_json["ops"] = dict(g.ops)
    rec["cfg"] = cfg_json
    rec["recipes"] = rr.recipes
    twin_steps = 0
    if prop == "C08":
        runs = twins.c08_twins(cfg_json, rr.recipes)
        pairs = [("on", "off"), ("on", "toggled"), ("off", "toggled")]
        for a, b in pairs:
            v, sid = twins.compare_traces(runs[a], runs[b], ["C08"], f"contraction-twin:{a}/{b}", runs[a].world)
            twin_steps += min(runs[a].steps, runs[b].steps)
            if v is not None:
                v.sid = sid
                vj = v.to_json()
                vj["twin"] = {"a": a, "b": b}
                vj["twin_prior"] = _prior(runs[a], sid) + _prior(runs[b], sid)
                rec["violations"].append(vj)
                break
    elif prop == "C15":
        a, b, sids = twins.c15_twins(cfg_json, rr.recipes, client=0)
        v, sid = twins.compare_traces(a, b, ["C15"], "interleaving-twin", a.world, client=0, align=sids)  # not same_layout: the others may toggle the global contraction flag
        twin_steps += len(sids)
        if v is not None:
            v.sid = sid
            vj = v.to_json()
            vj["twin"] = {"a": "interleaved", "b": "solo"}
            vj["twin_prior"] = _prior(a, sid) + _prior(b, sid)
            rec["violations"].append(vj)
        elif not _late():
            p, f = twins.c15_more_twins(cfg_json, rr.recipes, client=0)
            twin_steps += 2 * len(sids)
            for other, name in ((p, "poison-prefix-twin"), (f, "fresh-object-twin")):
                v, sid = twins.compare_traces(other, b, ["C15"], name, other.world, client=0, align=sids, same_layout=True)
                if v is not None:
                    v.sid = sid
                    vj = v.to_json()
                    vj["twin"] = {"a": name, "b": "solo"}
                    vj["twin_prior"] = _prior(other, sid) + _prior(b, sid)
                    rec["violations"].append(vj)
                    break
            else:
                vj, n = (None, 0) if _late() else _history_twin_violation(cfg_json, rr.recipes, [x for x in rr.violations])
                twin_steps += n
                if vj is not None:
                    rec["violations"].append(vj)
    elif prop == "C10" and twins.reused_estimator_ops(rr.recipes, cfg_json["ops"]):
        # the cut-off chosen for an operation must not depend on what the Operation object did before
        # (the estimator's own inaccuracy is a known finding, which would hide that)
        a, f = twins.fresh_object_twin(cfg_json, rr.recipes)
        v, sid = twins.compare_traces(f, a, ["C10", "C15"], "fresh-object-twin", f.world, same_layout=True)
        twin_steps += a.steps
        if v is not None:
            v.sid = sid
            vj = v.to_json()
            vj["twin"] = {"a": "fresh-object-twin", "b": "recorded"}
            vj["twin_prior"] = _prior(a, sid) + _prior(f, sid)
            rec["violations"].append(vj)
    elif prop == "C18":
        a, b = twins.c18_twins(cfg_json, rr.recipes)
        v, sid = twins.compare_footprints(a, b)
        twin_steps += min(a.steps, b.steps) if b is not None else 0
        if v is not None:
            v.sid = sid
            vj = v.to_json()
            vj["twin"] = {"a": "recorded", "b": "distinct-values"}
            vj["twin_prior"] = _prior(a, sid) + _prior(b, sid)
            rec["violations"].append(vj)
    elif prop == "C14":
        extra, n = c14_checks(cfg_json, rr, seed)
        twin_steps += n
        rec["violations"].extend(extra)
    rec["twin_steps"] = twin_steps
    return rec, rr


def _history_twin_violation(cfg, recipes, main_viols):
    """C15: see twins.history_twin. Returns a violation json or None."""
    from sim import twins
    from sim.oracles import Violation

    if main_viols:
        return None, 0
    first, second = twins.history_twin(cfg, recipes, client=0)
    n = first.steps + second.steps
    if first.violations or first.harness_error or second.harness_error:
        return None, n  # not clean by itself: whatever that is, it is not shown to depend on the history
    bad = [v for v in second.violations if v.oracle in ("op-refinement", "valid-request") and v.sid is not None]
    if not bad:
        return None, n
    v0 = bad[0]
    v = Violation(["C15"], "history-twin", "acts-differently-after-look-alikes", dict(v0.cell), f"sid {v0.sid}: {v0.failure}: {v0.detail[:160]} (the same program with other fresh angles, run without the look-alike operations on unrelated objects, is clean)")
    v.sid = v0.sid
    vj = v.to_json()
    vj["twin"] = {"a": "history-twin", "b": "solo"}
    return vj, n


def _prior(rr, sid):
    """Per-step violations recorded at or before `sid` in a twin (for attribution)."""
    out = []
    for v in rr.violations:
        if v.sid is not None and sid is not None and v.sid <= sid:
            out.append(v.to_json())
    return out


def c14_checks(cfg, rr, seed):
    """Reproducibility: re-seed and re-run behind different prior activity; key hygiene."""
    from sim import runner, seams
    from sim.oracles import Violation

    out = []
    n = 0
    cell0 = {"action": "program", "type": "-", "entry": "-", "kinds": "", "stores": [], "levels": [], "flags": "", "contraction": bool(cfg.get("contraction", True)), "pre_class": "-"}
    # key hygiene of the base run
    keys = rr.keys
    skeys = rr.sampler_keys
    if len(set(skeys)) != len(skeys):
        out.append(Violation(["C14"], "key-hygiene", "key-reused", cell0, f"{len(skeys) - len(set(skeys))} sampler keys repeated").to_json())
    ks = set(keys)
    if any(k not in ks for k in skeys):
        out.append(Violation(["C14"], "key-hygiene", "foreign-key", cell0, "a key reached the sampler that Config.random_key did not hand out").to_json())
    # long key streams: a block-wise or cached key supply may repeat a key only after many draws
    if seed % 4 == 0:
        from sim.world import reset_library
        from photon_weave.photon_weave import Config
        from photon_weave.state.polarization import Polarization
        from photon_weave.operation import Operation, PolarizationOperationType

        reset_library(contraction=cfg.get("contraction", True), seed=seed % 9973 + 11)
        seams.reset(mode="real")
        C = Config()
        nkeys = 4200
        for _ in range(nkeys):
            C.random_key
        ks = list(seams.keys_log())
        if len(set(ks)) != len(ks):
            first = next(i for i in range(1, len(ks)) if ks[i] in set(ks[:i]))
            out.append(Violation(["C14"], "key-hygiene", "key-reused", cell0, f"key number {first} handed out by Config.random_key after one set_seed repeats an earlier one").to_json())
        n += 1
        if seed % 32 == 0 and not out:
            # the same through measurements: identically prepared states measured in a shot loop
            seams.reset(mode="real")
            C.set_seed(seed % 9973 + 12)
            H = Operation(PolarizationOperationType.H)
            for _ in range(1100):
                p_ = Polarization()
                p_.apply_operation(H)
                p_.measure()
            sk = list(seams.sampler_keys_log())
            if len(set(sk)) != len(sk):
                first = next(i for i in range(1, len(sk)) if sk[i] in set(sk[:i]))
                out.append(Violation(["C14"], "key-hygiene", "key-reused", cell0, f"shot {first} of a measurement loop after one set_seed used the key of an earlier shot").to_json())
            n += 1100
    # twin: program = client 0's steps; prefixes = nothing vs the other clients' steps + junk
    P = [r for r in rr.recipes if r.get("client", 0) == 0]
    others = [r for r in rr.recipes if r.get("client", 0) != 0]
    # "for every seed": boundary values are legal seeds too (0 is falsy, 2**31-1 is the largest int32)
    s = {0: 0, 1: 2**31 - 1, 2: 1}.get(seed % 7, seed % 9973 + 7)
    reseed = {"do": "config", "seed": s, "sid": 10**6, "client": 0}
    junk = [
        {"do": "mk_env", "name": "e90", "client": 9, "fock": 1, "pol": "R", "sid": 10**6 + 1},
        {"do": "sub.expand", "sub": "e90.p", "client": 9, "sid": 10**6 + 2},
        {"do": "measure", "entry": "state", "on": ["e90.p"], "sep": True, "destr": False, "client": 9, "sid": 10**6 + 3},
        {"do": "config", "contraction": not cfg.get("contraction", True), "client": 9, "sid": 10**6 + 4},
        {"do": "config", "contraction": cfg.get("contraction", True), "client": 9, "sid": 10**6 + 5},
    ]
    c = dict(cfg)
    c["mode"] = "real"
    # the configuration the program runs under is part of the program: both twins start P with the
    # contraction flag of the run configuration, whatever the earlier activity left behind
    restore = {"do": "config", "contraction": bool(cfg.get("contraction", True)), "client": 0, "sid": 10**6 + 9}
    reseed = [restore, reseed]
    A = runner.execute_run(dict(c), recipes=copy.deepcopy(reseed + P), stop_on_taint=False)
    ka = list(A.sampler_keys)
    B = runner.execute_run(dict(c, lib_seed=c.get("lib_seed", 1) + 17, debuglog=not c.get("debuglog")), recipes=copy.deepcopy(others + junk + reseed + P), stop_on_taint=False)  # and under the other logging level
    n = A.steps + B.steps
    pa = [e for e in A.events if e["sid"] < 10**6]
    pb = [e for e in B.events if e["sid"] < 10**6 and any(r["sid"] == e["sid"] for r in P)]
    da = [(e["sid"], e["st"], e["ret"]) for e in pa if e["do"] in ("measure", "povm")]
    db = [(e["sid"], e["st"], e["ret"]) for e in pb if e["do"] in ("measure", "povm")]
    if da != db:
        k = next((i for i, (x, y) in enumerate(zip(da, db)) if x != y), min(len(da), len(db)))
        out.append(
            Violation(["C14"], "reseed-twin", "outcomes-differ", cell0, f"first difference at program step {k}: {da[k] if k < len(da) else None} vs {db[k] if k < len(db) else None}").to_json()
        )
    else:
        from sim import twins

        d = twins.snapshot_diff(A.final, B.final, client=0, tol=1e-9)
        if d is not None:
            out.append(Violation(["C14"], "reseed-twin", "final-state-differs", cell0, d).to_json())
        kb = list(B.sampler_keys)
        if ka and kb[-len(ka) :] != ka and not others:
            out.append(Violation(["C14"], "reseed-twin", "key-sequence-differs", cell0, "sampler keys after re-seeding differ").to_json())
    return out, n



def hash_s(s):
    import hashlib

    return hashlib.blake2b(s.encode(), digest_size=6).hexdigest()


def replay_file(path, prop=None):
    """Re-execute a replay file; returns (reproduced?, violations json, record)."""
    from sim import runner

    with open(path) as f:
        rp = json.load(f)
    prop = prop or rp["property"]
    cfg = dict(rp["cfg"])
    recipes = rp["steps"]
    viols = run_recipes_for_prop(prop, cfg, recipes, rp.get("twin"))
    want = rp.get("expect", {}).get("key")
    got = [v for v in viols if want is None or key_eq(sig_key(v), want)]
    return (len(got) > 0), viols, rp


def sig_key(v):
    c = v["cell"]
    return [v["oracle"], v["failure"], c.get("action"), c.get("type"), c.get("entry"), list(c.get("stores", [])), list(c.get("levels", []))]


def key_eq(a, b):
    return json.dumps(a, default=list) == json.dumps(b, default=list)


def run_recipes_for_prop(prop, cfg, recipes, twin=None):
    """Execute a recorded op list with the oracles of `prop`; returns violations (json)."""
    from sim import runner, twins

    cfg = dict(cfg)
    if prop == "C10" and twin is not None:
        a, f = twins.fresh_object_twin(cfg, recipes)
        out = [v.to_json() for v in a.violations if prop in v.props]
        v, sid = twins.compare_traces(f, a, ["C10", "C15"], "fresh-object-twin", f.world, same_layout=True)
        if v is not None:
            v.sid = sid
            vj = v.to_json()
            vj["twin_prior"] = _prior(a, sid) + _prior(f, sid)
            out.append(vj)
        return out
    if prop not in ("C08", "C15", "C18", "C14") or (twin is None and prop != "C14"):
        rr = runner.execute_run(cfg, recipes=copy.deepcopy(recipes))
        out = [v.to_json() for v in rr.violations if prop in v.props]
        if prop == "C17" and not out:
            from sim import enumerate_faults

            out = enumerate_faults.continuation_violations(cfg, recipes)
        return out
    out = []
    if prop == "C08":
        runs = twins.c08_twins(cfg, recipes)
        a, b = twin["a"], twin["b"]
        v, sid = twins.compare_traces(runs[a], runs[b], ["C08"], f"contraction-twin:{a}/{b}", runs[a].world)
        if v is not None:
            v.sid = sid
            vj = v.to_json()
            vj["twin_prior"] = _prior(runs[a], sid) + _prior(runs[b], sid)
            out.append(vj)
    elif prop == "C15":
        a, b, sids = twins.c15_twins(cfg, recipes, client=0)
        v, sid = twins.compare_traces(a, b, ["C15"], "interleaving-twin", a.world, client=0, align=sids)  # not same_layout: the others may toggle the global contraction flag
        if v is not None:
            v.sid = sid
            vj = v.to_json()
            vj["twin_prior"] = _prior(a, sid) + _prior(b, sid)
            out.append(vj)
        p, f = twins.c15_more_twins(cfg, recipes, client=0)
        for other, name in ((p, "poison-prefix-twin"), (f, "fresh-object-twin")):
            v, sid = twins.compare_traces(other, b, ["C15"], name, other.world, client=0, align=sids, same_layout=True)
            if v is not None:
                v.sid = sid
                vj = v.to_json()
                vj["twin_prior"] = _prior(other, sid) + _prior(b, sid)
                out.append(vj)
        if not out:
            rr0 = runner.execute_run(dict(cfg), recipes=copy.deepcopy(recipes), stop_on_taint=False)
            vj, _ = _history_twin_violation(cfg, recipes, list(rr0.violations))
            if vj is not None:
                out.append(vj)
    elif prop == "C18":
        a, b = twins.c18_twins(cfg, recipes)
        v, sid = twins.compare_footprints(a, b)
        if v is not None:
            v.sid = sid
            vj = v.to_json()
            vj["twin_prior"] = _prior(a, sid) + _prior(b, sid)
            out.append(vj)
    elif prop == "C14":
        rr = runner.execute_run(dict(cfg, mode="real"), recipes=copy.deepcopy(recipes))
        out.extend(v.to_json() for v in rr.violations if "C14" in v.props)
        extra, _ = c14_checks(cfg, rr, int(cfg.get("seed", 0)))
        out.extend(extra)
    return out


