#!/venv/bin/python
"""Run a compact replay description and print every violation it produces (all properties)."""
import sys, os, json
HERE = os.path.dirname(os.path.dirname(os.path.abspath(__file__)))
sys.path.insert(0, HERE)
from sim import env
env.boot()
from sim import runner
path = sys.argv[1]
rp = json.load(open(path))
rr = runner.execute_run(dict(rp["cfg"]), recipes=rp["steps"])
for e in rr.events:
    print(e["sid"], e["do"], e["st"], e["exc"], e["ret"])
for v in rr.violations:
    print(v.props, v.oracle, v.failure, json.dumps(v.cell, sort_keys=True), "|", v.detail)
