#!/usr/bin/env python3
"""Regenerate the 'fixed' list of known_findings.json from the fix: commits in /repo."""
import json, subprocess, os
HERE = os.path.dirname(os.path.dirname(os.path.abspath(__file__)))
PROPS = {
 "measure_POVM on a stand-alone state rejects operators of the wrong shape": "C17,C09",
 "the reduced state of a vector keeps weakly populated": "C01,C10,C11",
 "Polarization.contract compares with the label vectors": "C02,C01,C08",
 "import Envelope/CompositeEnvelope at run time": "C01,C02,C04,C05,C06,C09",
 "Polarization.contract only reports Label": "C07,C01",
 "renormalise vector-level polarization": "C07,C01",
 "renormalise density matrices to unit trace": "C07,C01,C03",
 "CustomState.expand builds": "C08,C07",
 "refresh indices after empty product states": "C13",
 "normalise the post-measurement density matrix": "C05,C07",
 "Fock.resize guards every shrink": "C10,C17",
 "apply_kraus on a subsystem stored": "C06",
 "merging composite envelopes keeps every handle": "C13",
 "resizing a Fock space inside a matrix-level": "C10,C02,C07",
 "own-state POVM draws outcome": "C09",
 "expression interpreter no longer updates": "C15,C01",
 "Envelope.trace_out only delegates": "C02,C01",
 "partner measurement after an own-state POVM honours": "C09",
 "custom state measured inside a product space": "C05,C13",
 "product-state measurement draws from the reduced": "C04",
 "partial trace of a density matrix traces": "C02,C09",
 "rejected operation (all-zero result)": "C17",
 "Kraus channels on a vector-level product state": "C06,C07",
 "measure() on a subsystem held in a composite product space passes": "C05",
 "Polarization.measure() also measures": "C05",
 "Envelope.measure on an uncombined envelope honours": "C05",
 "CompositeEnvelope.measure refuses a destroyed": "C05,C17",
 "CompositeEnvelope.measure adds envelope partners by identity": "C18,C05",
 "Envelope.measure_POVM combines before expanding": "C09",
 "merging two handles of one composite envelope no longer": "C13",
 "Fock.measure measures its envelope partner separately": "C05",
 "composite Kraus / POVM / trace_out use the product state": "C06,C09,C02",
 "partial trace of a state vector returns": "C02,C10,C11,C01",
 "own-state POVM skips the envelope partner": "C09",
 "two-subsystem envelope POVM contracts": "C09",
 "destructive product-state POVM discards": "C09",
 "measure_POVM on a subsystem held in a product space forwards": "C09",
 "CompositeEnvelope.combine accepts both members": "C02,C03,C13,C17",
 "Envelope.measure/reorder identify their members": "C18,C17,C05",
 "Envelope.resize_fock fixes the tensor order": "C10",
 "CompositeEnvelope.combine/resize_fock check membership by identity": "C17,C18",
 "an Expression operation checks its operands": "C15,C03",
 "Envelope.measure on a combined envelope follows the Born rule": "C04,C05,C07,C13,C08",
}
log = subprocess.run(["git", "-C", "/repo", "log", "--reverse", "--format=%h\t%s", "3d47238..HEAD"], capture_output=True, text=True).stdout
fixed = []
for line in log.splitlines():
    h, s = line.split("\t", 1)
    if not s.startswith("fix:"):
        continue
    props = next((v for k, v in PROPS.items() if k in s), None)
    if props is None:
        raise SystemExit("unmapped fix commit: " + line)
    for p in props.split(","):
        fixed.append(f"fixed: property={p} {h} {s[5:]}")
path = os.path.join(HERE, "known_findings.json")
kf = json.load(open(path))
kf["fixed"] = fixed
json.dump(kf, open(path, "w"), indent=1)
print(len(fixed), "fixed entries")
