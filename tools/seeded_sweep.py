#!/usr/bin/env python3
"""Regression sweep over /verif/seeded: apply each kept change to a scratch copy of /repo HEAD and run the
first check that is recorded as catching it. usage: seeded_sweep.py [secs] [workers] [only-prefix...]"""
import json, os, subprocess, sys, shutil, glob
secs = sys.argv[1] if len(sys.argv) > 1 else "30"
workers = sys.argv[2] if len(sys.argv) > 2 else "8"
only = sys.argv[3:]
res = []
for d in sorted(glob.glob("/verif/seeded/S*")):
    sid = os.path.basename(d)
    if only and not any(sid.startswith(o) for o in only):
        continue
    meta = json.load(open(os.path.join(d, "meta.json")))
    checks = meta.get("caught_by_checks") or []
    if not checks:
        continue
    scratch = f"/dev/shm/pw-sweep-{os.getpid()}"
    shutil.rmtree(scratch, ignore_errors=True); os.makedirs(scratch)
    try:
        subprocess.run(f"git -C /repo archive HEAD | tar -x -C {scratch}", shell=True, check=True)
        r = subprocess.run(["patch", "-p1", "-s", "-f", "-d", scratch, "-i", os.path.join(d, "patch.diff")], capture_output=True, text=True)
        if r.returncode:
            res.append((sid, "patch does not apply to HEAD", "")); print(sid, "NOAPPLY", flush=True); continue
        hit = None
        for p in checks[:2]:
            e = dict(os.environ, VERIF_REPO=scratch)
            c = subprocess.run(["./check", p, "--time", secs, "--workers", workers], cwd="/verif", env=e, capture_output=True, text=True)
            if c.returncode == 1 and "VIOLATION" in c.stdout:
                hit = p; break
        res.append((sid, "caught" if hit else "MISSED", hit or ",".join(checks[:2])))
        print(sid, "caught by " + hit if hit else "MISSED by " + ",".join(checks[:2]), flush=True)
    finally:
        shutil.rmtree(scratch, ignore_errors=True)
print("summary:", sum(1 for r in res if r[1] == "caught"), "caught,", sum(1 for r in res if r[1] == "MISSED"), "missed,", sum(1 for r in res if r[1].startswith("patch")), "not applicable to HEAD")
