#!/bin/sh
# Reproduces what a fresh offline restore does: (optionally) empties the XLA cache, runs MANIFEST.setup_cmd,
# then every check's quick command once in MANIFEST order with its evidence file removed first.
#   tools/fresh_round.sh [--cold] [logfile]
cd "$(dirname "$0")/.."
export CARGO_NET_OFFLINE=true GOPROXY=off PIP_NO_INDEX=1 VERIF_SEED="${VERIF_SEED:-1}" VERIF_TIER=quick
cold=0
if [ "$1" = "--cold" ]; then cold=1; shift; fi
log="${1:-/dev/stdout}"
if [ "$cold" = 1 ]; then
    rm -rf .cache .work
    t0=$(date +%s)
    sh -c "$(jq -r .setup_cmd MANIFEST.json)" >> "$log" 2>&1 || echo "SETUP FAILED" >> "$log"
    echo "setup: $(( $(date +%s) - t0 )) s" >> "$log"
fi
jq -r '.checks[] | [.property_id, .quick_cmd, .evidence_file] | @tsv' MANIFEST.json | while IFS="$(printf '\t')" read -r id cmd ev; do
    rm -f "$ev"
    out=$(sh -c "$cmd" 2>&1); rc=$?
    echo "$out" | grep -v "^WARN\|conda" | tail -4 >> "$log"
    echo "== $id exit=$rc evidence=$( [ -s "$ev" ] && echo rewritten || echo MISSING )" >> "$log"
done
echo "ROUND DONE" >> "$log"
