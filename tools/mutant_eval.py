#!/usr/bin/env python3
"""Evaluate a seeded change: demo on clean/mutant trees, then run the given checks against a scratch copy.
usage: mutant_eval.py <patch.diff> <demo.py|-> <time_s> <prop> [<prop> ...]"""
import os, subprocess, sys, shutil, tempfile, json
patch, demo, budget, props = sys.argv[1], sys.argv[2], sys.argv[3], sys.argv[4:]
scratch = f"/dev/shm/pw-mut-{os.getpid()}"
os.makedirs(scratch)
try:
    subprocess.run(f"git -C /repo archive HEAD | tar -x -C {scratch}", shell=True, check=True)
    r = subprocess.run(["git", "apply", "--directory", scratch, "--unsafe-paths", os.path.abspath(patch)], cwd="/", capture_output=True, text=True)
    if r.returncode:
        r = subprocess.run(["patch", "-p1", "-d", scratch, "-i", os.path.abspath(patch)], capture_output=True, text=True)
        if r.returncode:
            print("PATCH DOES NOT APPLY", r.stdout, r.stderr); sys.exit(3)
    if demo != "-":
        for name, tree in (("clean", "/repo"), ("mutant", scratch)):
            e = dict(os.environ, PYTHONPATH=tree, JAX_PLATFORMS="cpu")
            d = subprocess.run(["/venv/bin/python", os.path.abspath(demo)], env=e, capture_output=True, text=True, cwd=tempfile.gettempdir())
            last = [l for l in d.stdout.splitlines() if l.strip()][-1:] or [""]
            print(f"demo on {name}: exit {d.returncode} :: {last[0][:150]}")
    for p in props:
        e = dict(os.environ, VERIF_REPO=scratch)
        c = subprocess.run(["./check", p, "--time", budget], cwd="/verif", env=e, capture_output=True, text=True)
        lines = [l for l in c.stdout.splitlines() if l.startswith("VIOLATION") or l.startswith("  oracle=") or l.startswith("  detail=") or l.startswith(p + " ") or l.startswith("HARNESS")]
        print(f"check {p}: exit {c.returncode}")
        for l in lines[:10]:
            print("    " + l[:260])
finally:
    shutil.rmtree(scratch, ignore_errors=True)
