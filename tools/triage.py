#!/venv/bin/python
"""Coarse triage: run a profile on all cores, group every violation by (props, oracle, failure, message head)."""
import sys, os, json, subprocess, time, shutil, re
HERE = os.path.dirname(os.path.dirname(os.path.abspath(__file__)))
sys.path.insert(0, HERE)
from sim import env as simenv
profile = sys.argv[1]; budget = float(sys.argv[2]) if len(sys.argv) > 2 else 40
seed0 = int(sys.argv[3]) if len(sys.argv) > 3 else 1000
prop = sys.argv[4] if len(sys.argv) > 4 else "ANY"
wd = os.path.join(HERE, ".work", f"triage-{os.getpid()}"); os.makedirs(wd, exist_ok=True)
procs = []
for i in range(16):
    out = os.path.join(wd, f"w{i}.jsonl")
    procs.append((out, subprocess.Popen(["/venv/bin/python", "-m", "sim.worker", "explore", "--prop", prop, "--profile", profile, "--seed0", str(seed0), "--stride", "16", "--offset", str(i), "--deadline", str(budget), "--out", out], cwd=HERE, env=simenv.worker_environ(), stderr=subprocess.PIPE, text=True)))
groups = {}; runs = steps = 0
for out, p in procs:
    _, err = p.communicate()
    if p.returncode: print("worker failed", err[-500:])
    for line in open(out):
        j = json.loads(line)
        if j.get("summary"):
            runs += j["runs"]; steps += j["steps"]
            if j.get("slowest") and j["slowest"][0] > 8: print("SLOW", j["slowest"][0], j["slowest"][1], j["slowest"][2], j["slowest"][3], {k: v for k, v in (j["slowest"][4] or {}).items() if k in j["slowest"][2]})
            continue
        if j.get("harness"): print("HARNESS", j["seed"], j["harness"], j.get("tb", "")[-600:])
        for v in j.get("violations", []):
            msg = re.sub(r"[0-9.e+-]{4,}", "#", v["detail"])[:70]
            k = (",".join(v["props"]), v["oracle"], v["failure"], v["cell"]["action"], msg)
            groups.setdefault(k, []).append((j["seed"], v["sid"], v["cell"]["type"], v["cell"]["entry"], v["cell"]["stores"], v["cell"]["levels"], v["detail"][:160]))
shutil.rmtree(wd, ignore_errors=True)
print(f"runs {runs} steps {steps}")
for k, lst in sorted(groups.items(), key=lambda kv: -len(kv[1])):
    print(f"{len(lst):5d} {k}")
    print("        e.g.", lst[0])
