#!/usr/bin/env python3
"""Run the repository's suite (guard off) and compare with /root/.vp/BASELINE.json stable_pass."""
import json, subprocess, sys, os, xml.etree.ElementTree as ET, tempfile
repo = sys.argv[1] if len(sys.argv) > 1 else "/repo"
out = os.path.join(tempfile.gettempdir(), f"suite-{os.getpid()}.xml")
env = dict(os.environ); env.pop("PHOTON_WEAVE_VERIF", None); env["PYTHONPATH"] = repo
p = subprocess.run(["/venv/bin/python", "-m", "pytest", "-q", "-p", "no:cacheprovider", "--timeout=900",
                    "--continue-on-collection-errors", f"--junitxml={out}", "-n", sys.argv[2] if len(sys.argv) > 2 else "0"] if False else
                   ["/venv/bin/python", "-m", "pytest", "-q", "-p", "no:cacheprovider", "--timeout=900",
                    "--continue-on-collection-errors", f"--junitxml={out}"], cwd=repo, env=env, capture_output=True, text=True)
base = json.load(open("/root/.vp/BASELINE.json"))
stable = set(base["stable_pass"])
passed, failed = set(), set()
for tc in ET.parse(out).getroot().iter("testcase"):
    name = f"{tc.get('classname')}::{tc.get('name')}"
    if any(c.tag in ("failure", "error") for c in tc):
        failed.add(name)
    elif not any(c.tag == "skipped" for c in tc):
        passed.add(name)
os.remove(out)
missing = sorted(stable - passed)
print(f"passed {len(passed)} failed {len(failed)}; stable baseline {len(stable)}; stable tests not passing: {len(missing)}")
for m in missing: print("  BROKEN", m)
newpass = sorted(passed - stable)
if newpass: print("  newly passing:", newpass)
sys.exit(1 if missing else 0)
